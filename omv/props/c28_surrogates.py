"""C28 - surrogates reproduce training data and their own derivatives (DESIGN.md section 4, C28).

* ResponseSurface: every quadratic with coefficients in {-1, 0, 2} (n = 1, 2: all; n = 3: all in the
  thorough tier, the <= 3-nonzero ones in quick) trained on full 3^n / 4^n lattices, many quadratics
  at a time as the columns of a multi-output training set; predict == the quadratic and linearize ==
  its gradient on an off-lattice query set.
* NearestNeighbor linear / weighted / rbf x their options and KrigingSurrogate (nugget 0, eval_rmse,
  lapack_driver): predict at every training input == training output; linearize(x) == derivative of
  predict (4th-order central differences at two step sizes with a self-validating error estimate;
  exact complex step for Kriging whose predict is complex safe).
* MetaModelUnStructuredComp x each surrogate x vec_size x input/output structure: outputs and totals
  (fwd and rev) == predict / linearize of an identically trained stand-alone surrogate.
"""
import collections
import contextlib
import io
import itertools
import warnings

import numpy as np

ID = 'C28'
LEVEL = 'exploration'
TECHNIQUE = ('bounded exhaustive enumeration of training designs x surrogate options x output tables; '
             'closed-form quadratics, training-data reproduction and finite-difference / complex-step '
             'derivatives of predict as references')
RULE = ('ResponseSurface: every quadratic of the coefficient lattice {-1,0,2}^p x lattice design x query '
        'set (one evaluation = one quadratic on one design); interpolators/Kriging: design (3^n, 4^n '
        'lattice, two-ring cross; n = 1..3) x full product of the surrogate options x output table '
        '(rough / smooth, 1 or 2 outputs) (one evaluation = one trained surrogate with all its training '
        'points and query points); component: surrogate x vec_size x variable structure x mode; '
        'non-trivial = the quadratic has a second-order term and >= 2 non-zero coefficients / the '
        'derivative comparison was conclusive at >= 1 query point and all training points were '
        'reproduced / vec_size > 1 or array-valued variables')
LEVEL_TEXT = ('The option product and the coefficient lattice are enumerated completely inside the bound; '
              'training designs are small, well separated and non-uniform so that conditioning is '
              'known; the continuous part (values of tables and query points) is probed with generic '
              'dyadic palettes.')
LEVEL_NOTE = ('Trusted: NumPy/SciPy linear algebra.  Dimensions above 3 (other coefficient tables of the '
              'RBF interpolant), noisy data with a non-zero nugget and the co-Kriging surrogate are not '
              'covered.')
ASSUMPTIONS = [
    'ResponseSurface is trained on unisolvent designs only (full lattices): on a cross design the '
    'mixed terms are not identifiable and exact reproduction is not a theorem',
    'derivative of predict is compared away from training points and only where predict is locally '
    'smooth: the 4th-order differences at steps h and h/2 must agree (their difference is the error '
    'estimate used as tolerance, x10); otherwise the point is counted fd_inconclusive',
    'Kriging regularises its pseudo-inverse (Tikhonov, h = 1e-8 S_0): at a training input the mean '
    'differs from the datum by U diag(h^2/(S^2+h^2)) U^T Y; the tolerance is 10x that bound computed by '
    'the harness from the trained thetas, plus 1e-9 of the output range',
    'options with too few training points for num_neighbors are admissibly rejected with ValueError '
    '(documented); the reference decides: n_train < num_neighbors',
    'MetaModelUnStructuredComp is compared with a stand-alone surrogate of the same class, options and '
    'training data (the property is agreement with the surrogate)',
]
MIN_NONTRIVIAL = {'quick': 1500, 'thorough': 30000}
CHUNK = 1

_C3 = [[-1.0, 0.5, 2.0], [0.0, 1.0, 3.0], [-2.0, -0.5, 1.5]]
_C4 = [[-1.0, 0.0, 1.5, 2.0], [0.0, 1.0, 2.5, 3.0], [-2.0, -1.0, 0.5, 1.5]]
# query points: generic (non-dyadic) fractions of the design range, so that no two training points are
# at exactly the same distance from a query point (a tie is a kink of the neighbour-based predictors)
_QF = [[0.3183, 0.5901, 0.7182], [0.8141, 0.2236, 0.4142], [0.4669, 0.9069, 0.1592],
       [0.1618, 0.4054, 0.8427]]
_MULTS = [37, 43, 59]


def _quiet():
    return contextlib.redirect_stdout(io.StringIO())


def _vals(n, salt, pal):
    i = np.arange(n)
    k = (i * i * _MULTS[pal % 3] + 17 * salt + 5) % 101
    return (k - 50) / 8.0 + 1.0 / 16.0


def design(n, kind):
    if kind == 'lat3':
        return np.array(list(itertools.product(*_C3[:n])), dtype=float)
    if kind == 'lat4':
        return np.array(list(itertools.product(*_C4[:n])), dtype=float)
    if kind == 'cross':
        c = np.array([0.25, 1.0, -0.5][:n])
        pts = [c.copy()]
        arms = [(1.0, -1.5, 2.5, -3.0), (0.75, -1.25, 2.0, -2.75), (1.5, -1.0, 3.0, -2.25)]
        for i in range(n):
            for a in arms[i]:
                p = c.copy()
                p[i] += a
                pts.append(p)
        return np.array(pts)
    raise ValueError(kind)


def queries(X, k=4):
    lo, hi = X.min(axis=0), X.max(axis=0)
    n = X.shape[1]
    return [lo + np.array(f[:n]) * (hi - lo) for f in _QF[:k]]


def table(X, kind, nout, pal):
    """training outputs: 'rough' = generic palette values, 'smooth' = a smooth non-polynomial function"""
    m, n = X.shape
    cols = []
    for j in range(nout):
        if kind == 'rough':
            cols.append(_vals(m, 3 + 5 * j, pal))
        else:
            w = np.array([0.5, -0.25, 0.75][:n]) * (1 + j)
            cols.append(np.sin(X.dot(w) + 0.5 * j) + 0.25 * np.sum(X * X, axis=1) * (1 - 2 * j))
    return np.array(cols).T


class _Acc(object):
    def __init__(self):
        self.evals = 0
        self.nontriv = 0
        self.outcomes = collections.Counter()
        self.vios = []
        self.seen = collections.Counter()

    def vio(self, sig, msg, case):
        self.seen[sig] += 1
        if self.seen[sig] <= 2:
            self.vios.append({'sig': sig, 'msg': msg + ' :: ' + repr(case)[:400], 'case': case})

    def result(self, sample=None):
        r = {'evals': self.evals, 'nontrivial': self.nontriv, 'outcome': dict(self.outcomes),
             'violations': self.vios}
        if sample is not None:
            r['sample'] = sample
        return r


# ================================================================== ResponseSurface

def _quad_terms(n):
    """exponent pairs of the quadratic monomials: constant, linear, then x_i x_j (i <= j)"""
    t = [()] + [(i,) for i in range(n)]
    t += [(i, j) for i in range(n) for j in range(i, n)]
    return t


def _quad_eval(coef, terms, x):
    v = 0.0
    for c, t in zip(coef, terms):
        m = 1.0
        for i in t:
            m = m * x[..., i]
        v = v + c * m
    return v


def _quad_grad(coef, terms, x, n):
    g = np.zeros(n)
    for c, t in zip(coef, terms):
        if len(t) == 1:
            g[t[0]] += c
        elif len(t) == 2:
            i, j = t
            g[i] += c * x[j]
            g[j] += c * x[i]
    return g


def _coef_lattice(n, tier):
    p = (n + 1) * (n + 2) // 2
    if n < 3 or tier == 'thorough':
        return [t for t in itertools.product((-1.0, 0.0, 2.0), repeat=p)]
    out = []
    for k in range(0, 4):
        for pos in itertools.combinations(range(p), k):
            for vals in itertools.product((-1.0, 2.0), repeat=k):
                c = [0.0] * p
                for q, v in zip(pos, vals):
                    c[q] = v
                out.append(tuple(c))
    return out


def check_rs(acc, n, kind, coefs, case_base):
    from openmdao.surrogate_models.response_surface import ResponseSurface
    X = design(n, kind)
    terms = _quad_terms(n)
    coefs = np.asarray(coefs, dtype=float)
    Y = np.stack([_quad_eval(c, terms, X) for c in coefs], axis=1)
    case = dict(case_base, kind='rs1', n=n, design=kind, coefs=coefs.tolist())
    try:
        with warnings.catch_warnings():
            warnings.simplefilter('ignore')
            s = ResponseSurface()
            s.train(X.copy(), Y.copy())
    except Exception as exc:
        acc.vio('C28:ResponseSurface.train_raises:%s' % type(exc).__name__, repr(exc)[:300], case)
        return
    qs = queries(X) + [X[0].copy(), X[-1].copy()]
    bad = np.zeros(len(coefs), dtype=bool)
    for q in qs:
        try:
            p = np.asarray(s.predict(q.copy()), dtype=float).ravel()
            J = np.asarray(s.linearize(q.copy()), dtype=float)
        except Exception as exc:
            acc.vio('C28:ResponseSurface.predict_raises:%s' % type(exc).__name__, repr(exc)[:300], case)
            return
        want = np.array([_quad_eval(c, terms, q) for c in coefs])
        G = np.array([_quad_grad(c, terms, q, n) for c in coefs])
        scale = 1.0 + np.abs(coefs).sum(axis=1) * (1.0 + np.abs(q).max()) ** 2
        if p.shape != want.shape or J.shape != G.shape:
            acc.vio('C28:ResponseSurface.shape:n%d' % n, 'predict %s linearize %s for %d outputs' % (
                p.shape, J.shape, len(coefs)), case)
            return
        bp = np.abs(p - want) > 1e-9 * scale
        bg = np.abs(J - G).max(axis=1) > 1e-9 * scale
        for k in np.where(bp & ~bad)[0][:1]:
            acc.vio('C28:ResponseSurface.predict:n%d:%s' % (n, kind),
                    'predict(%r) = %r, quadratic %r (coefficients %r)' % (
                        q.tolist(), float(p[k]), float(want[k]), coefs[k].tolist()),
                    dict(case, coefs=[coefs[k].tolist()]))
        for k in np.where(bg & ~bad & ~bp)[0][:1]:
            acc.vio('C28:ResponseSurface.linearize:n%d:%s' % (n, kind),
                    'linearize(%r) = %r, gradient %r (coefficients %r)' % (
                        q.tolist(), J[k].tolist(), G[k].tolist(), coefs[k].tolist()),
                    dict(case, coefs=[coefs[k].tolist()]))
        bad |= bp | bg
    for c, b in zip(coefs, bad):
        acc.evals += 1
        nz = int(np.count_nonzero(c))
        second = bool(np.any(c[n + 1:] != 0))
        acc.nontriv += int(nz >= 2 and second and not b)
        acc.outcomes['rs:n%d:%s:%s' % (n, kind, 'violation' if b else (
            'second_order' if second else 'affine'))] += 1


# ================================================================== interpolators and Kriging

def _make_sur(spec):
    from openmdao.surrogate_models.nearest_neighbor import NearestNeighbor
    from openmdao.surrogate_models.kriging import KrigingSurrogate
    from openmdao.surrogate_models.response_surface import ResponseSurface
    t = spec['type']
    if t == 'rs':
        return ResponseSurface(), {}
    if t == 'kriging':
        kw = {'nugget': 0.0, 'eval_rmse': spec.get('eval_rmse', False)}
        if spec.get('lapack_driver'):
            kw['lapack_driver'] = spec['lapack_driver']
        if spec.get('cache_file'):
            kw['training_cache'] = spec['cache_file']
        return KrigingSurrogate(**kw), {}
    ctor = {'interpolant_type': t}
    call = {}
    if spec.get('num_leaves') is not None:
        ctor['num_leaves'] = spec['num_leaves']
    if t == 'rbf':
        if spec.get('num_neighbors') is not None:
            ctor['num_neighbors'] = spec['num_neighbors']
        if spec.get('rbf_family') is not None:
            ctor['rbf_family'] = spec['rbf_family']
    elif t == 'weighted':
        if spec.get('num_neighbors') is not None:
            call['num_neighbors'] = spec['num_neighbors']
        if spec.get('dist_eff') is not None:
            call['dist_eff'] = spec['dist_eff']
    return NearestNeighbor(**ctor), call


def _scls(spec):
    if spec.get('pre'):
        return _scls({k: v for k, v in spec.items() if k != 'pre'}) + ':after_%s' % spec['pre']
    t = spec['type']
    if t == 'rbf':
        return 'rbf:family%s' % spec.get('rbf_family', 'default')
    if t == 'weighted':
        return 'weighted:dist_eff%s' % spec.get('dist_eff', 'default')
    if t == 'kriging':
        return 'kriging:%s' % spec.get('lapack_driver', 'default')
    return t


def _predict(s, call, x):
    r = s.predict(np.array(x, dtype=float), **call)
    if isinstance(r, tuple):
        r = r[0]
    return np.asarray(r, dtype=float).ravel()


def _fd4(f, x, k, h):
    e = np.zeros(x.size)
    e[k] = h
    return (-f(x + 2 * e) + 8 * f(x + e) - 8 * f(x - e) + f(x - 2 * e)) / (12 * h)


def _krig_bound(s, X, Y):
    """|mean(x_j) - y_j| bound from the Tikhonov regularisation, per output (harness linear algebra)"""
    Xn = (X - X.mean(axis=0)) / np.where(X.std(axis=0) == 0, 1.0, X.std(axis=0))
    ystd = np.where(Y.std(axis=0) == 0, 1.0, Y.std(axis=0))
    Yn = (Y - Y.mean(axis=0)) / ystd
    th = np.asarray(s.thetas, dtype=float)
    d2 = (Xn[:, None, :] - Xn[None, :, :]) ** 2
    R = np.exp(-d2.dot(th))
    S = np.linalg.svd(R, compute_uv=False)
    h = 1e-8 * S[0]
    fac = np.max(h * h / (S * S + h * h))
    return fac * np.linalg.norm(Yn, axis=0) * ystd, float(S[0] / S[-1])


def check_sur(acc, n, kind, spec, tab, nout, pal, case_base):
    X = design(n, kind)
    Y = table(X, tab, nout, pal)
    case = dict(case_base, kind='sur1', n=n, design=kind, spec=spec, table=tab, nout=nout, pal=pal)
    cls = _scls(spec)
    nd = 'n%d' % n
    acc.evals += 1
    m = X.shape[0]
    nn = spec.get('num_neighbors')
    need = nn if nn is not None else (5 if spec['type'] in ('rbf', 'weighted') else
                                     (n + 1 if spec['type'] == 'linear' else 2))
    may_reject = m < need
    try:
        with _quiet(), warnings.catch_warnings():
            warnings.simplefilter('ignore')
            pre = spec.get('pre')
            if pre:
                # an earlier training on the same inputs with other outputs must leave no trace:
                # 'same_obj' retrains the same object, 'cache' (Kriging) trains another instance
                # that writes the training cache file this one is given
                Y0 = table(X, 'smooth' if tab == 'rough' else 'rough', nout, pal + 1) * 1.5 + 0.75
                if pre == 'cache':
                    import os
                    spec = dict(spec, cache_file='c28_%d_%d.npz' % (os.getpid(), acc.evals))
                    if os.path.exists(spec['cache_file']):
                        os.remove(spec['cache_file'])
                    s0, _ = _make_sur(spec)
                    s0.train(X.copy(), Y0.copy())
                s, call = _make_sur(spec)
                if pre == 'same_obj':
                    s.train(X.copy(), Y0.copy())
            else:
                s, call = _make_sur(spec)
            s.train(X.copy(), Y.copy())
            p0 = _predict(s, call, X[0])
    except Exception as exc:
        if may_reject:
            # inadmissible option set (fewer training points than neighbours): any rejection is
            # admissible; the exception type is recorded in the outcome histogram only
            acc.outcomes['sur:%s:rejected_too_few_points:%s' % (spec['type'], type(exc).__name__)] += 1
            return
        acc.vio('C28:%s.train_raises:%s:%s' % (cls, type(exc).__name__, nd), repr(exc)[:300], case)
        return
    yrange = np.maximum(Y.max(axis=0) - Y.min(axis=0), 1.0)
    ok = True
    # ---- (a) training data reproduced at the training inputs
    tol = 1e-8 * yrange
    cond = None
    if spec['type'] == 'kriging':
        bnd, cond = _krig_bound(s, X, Y)
        tol = 10 * bnd + 1e-9 * yrange
    worst = 0.0
    for j in range(m):
        try:
            with warnings.catch_warnings():
                warnings.simplefilter('ignore')
                pj = _predict(s, call, X[j])
        except Exception as exc:
            acc.vio('C28:%s.predict_raises:%s:%s' % (cls, type(exc).__name__, nd), repr(exc)[:300], case)
            ok = False
            break
        if pj.shape != (nout,) or not np.all(np.abs(pj - Y[j]) <= tol):
            acc.vio('C28:%s.training_point:%s:%s' % (cls, nd, kind),
                    'predict(x_train[%d]=%r) = %r, training output %r (tolerance %r%s)' % (
                        j, X[j].tolist(), pj.tolist(), Y[j].tolist(), np.asarray(tol).tolist(),
                        '' if cond is None else ', cond(R) = %.3g' % cond), case)
            ok = False
            break
        worst = max(worst, float(np.max(np.abs(pj - Y[j]) / yrange)))
    # ---- (b) linearize == derivative of predict
    conclusive = 0
    if ok:
        span = X.max(axis=0) - X.min(axis=0)
        for q in queries(X):
            try:
                with warnings.catch_warnings():
                    warnings.simplefilter('ignore')
                    J = np.asarray(s.linearize(np.array(q), **call), dtype=float)
                    J = J.reshape((nout, n))
                    D = np.zeros((nout, n))
                    E = np.zeros((nout, n))
                    if spec['type'] == 'kriging':
                        for k in range(n):
                            z = np.array(q, dtype=complex)
                            z[k] += 1e-30j
                            r = s.predict(z)
                            r = r[0] if isinstance(r, tuple) else r
                            D[:, k] = np.asarray(r).ravel().imag / 1e-30
                        E[:] = 1e-9 * np.abs(D) + 1e-12
                    else:
                        f = lambda x: _predict(s, call, x)
                        for k in range(n):
                            h = span[k] / 1024.0
                            d1 = _fd4(f, q, k, h)
                            d2 = _fd4(f, q, k, h / 2)
                            D[:, k] = d2
                            E[:, k] = 10 * np.abs(d1 - d2) + 1e-7 * yrange / span[k]
            except Exception as exc:
                acc.vio('C28:%s.linearize_raises:%s:%s' % (cls, type(exc).__name__, nd), repr(exc)[:300], case)
                ok = False
                break
            if not np.all(np.isfinite(D)) or np.any(E > 1e-3 * yrange[:, None] / span[None, :]):
                acc.outcomes['sur:fd_inconclusive'] += 1
                continue
            conclusive += 1
            if not np.all(np.abs(J - D) <= E):
                r, c = [int(t) for t in np.argwhere(np.abs(J - D) > E)[0]]
                acc.vio('C28:%s.linearize:%s:%s' % (cls, nd, 'nout%d' % nout),
                        'linearize(%r)[%d,%d] = %r, derivative of predict %r +- %r' % (
                            q.tolist(), r, c, float(J[r, c]), float(D[r, c]), float(E[r, c])), case)
                ok = False
                break
    acc.nontriv += int(ok and conclusive >= 1)
    lab = 'sur:%s:%s' % (_scls(spec), 'ok' if ok else 'violation')
    if ok and cond is not None:
        lab += ':cond<1e4' if cond < 1e4 else (':cond<1e8' if cond < 1e8 else ':cond>=1e8')
    acc.outcomes[lab] += 1


# ================================================================== MetaModelUnStructuredComp

def check_comp(acc, spec, vec, struct, mode, pal, case_base):
    import openmdao.api as om
    case = dict(case_base, kind='comp1', spec=spec, vec=vec, struct=struct, mode=mode, pal=pal)
    cls = '%s:vec%s:%s' % (_scls(spec), '1' if vec == 1 else 'N', struct)
    acc.evals += 1
    # variable structure: inputs (name, size), outputs (name, size)
    ins = {'ss': [('x', 1), ('y', 1)], 'sv': [('x', 1), ('z', 2)], 'vs': [('z', 2), ('x', 1)]}[struct[:2]]
    outs = {'s': [('f', 1)], 'v': [('g', 2)], 'b': [('f', 1), ('g', 2)]}[struct[2]]
    n = sum(sz for _, sz in ins)
    X = design(n, 'lat3')
    tr_out = {}
    for j, (nm, sz) in enumerate(outs):
        tr_out[nm] = table(X, 'smooth' if j == 0 else 'rough', sz, pal)
    try:
        with _quiet(), warnings.catch_warnings():
            warnings.simplefilter('ignore')
            comp = om.MetaModelUnStructuredComp(vec_size=vec, default_surrogate=_make_sur(spec)[0])
            col = 0
            for nm, sz in ins:
                shp = (vec,) + ((sz,) if sz > 1 else ()) if vec > 1 else (sz,)
                td = X[:, col] if sz == 1 else X[:, col:col + sz]
                comp.add_input(nm, np.zeros(shp) if shp else 0.0, training_data=td)
                col += sz
            for nm, sz in outs:
                shp = (vec,) + ((sz,) if sz > 1 else ()) if vec > 1 else (sz,)
                td = tr_out[nm][:, 0] if sz == 1 else tr_out[nm]
                comp.add_output(nm, np.zeros(shp), training_data=td)
            p = om.Problem(reports=None)
            p.model.add_subsystem('c', comp, promotes=['*'])
            p.setup(mode=mode)
            Q = np.array(queries(X, 4))[:vec] if vec > 1 else np.array(queries(X, 1))
            col = 0
            for nm, sz in ins:
                v = Q[:, col:col + sz]
                p.set_val(nm, v.reshape(p.get_val(nm).shape))
                col += sz
            p.run_model()
            got = {nm: np.asarray(p.get_val(nm)).copy() for nm, _ in outs}
            J = p.compute_totals(of=[nm for nm, _ in outs], wrt=[nm for nm, _ in ins])
    except Exception as exc:
        acc.vio('C28:MetaModelUnStructuredComp.raises:%s:%s' % (type(exc).__name__, cls),
                repr(exc)[:300], case)
        return
    ok = True
    for nm, sz in outs:
        with _quiet(), warnings.catch_warnings():
            warnings.simplefilter('ignore')
            s, call = _make_sur(spec)
            s.train(X.copy(), tr_out[nm].copy())
            P = np.array([_predict(s, {}, Q[r]) for r in range(Q.shape[0])])        # (vec, sz)
            L = np.array([np.asarray(s.linearize(np.array(Q[r]))).reshape((sz, n))
                          for r in range(Q.shape[0])])                                 # (vec, sz, n)
        g = got[nm].reshape(P.shape)
        sc = max(1.0, np.abs(P).max())
        if not np.all(np.abs(g - P) <= 1e-10 * sc):
            acc.vio('C28:MetaModelUnStructuredComp.output:%s' % cls,
                    'output %s = %r, surrogate.predict = %r' % (nm, g.tolist(), P.tolist()), case)
            ok = False
        col = 0
        for wn, wsz in ins:
            want = np.zeros((Q.shape[0] * sz, Q.shape[0] * wsz))
            for r in range(Q.shape[0]):
                want[r * sz:(r + 1) * sz, r * wsz:(r + 1) * wsz] = L[r][:, col:col + wsz]
            col += wsz
            Jg = np.asarray(J[nm, wn])
            scj = max(1.0, np.abs(want).max())
            if Jg.shape != want.shape or not np.all(np.abs(Jg - want) <= 1e-10 * scj):
                acc.vio('C28:MetaModelUnStructuredComp.totals_%s:%s' % (mode, cls),
                        'd %s/d %s = %r, surrogate.linearize blocks %r' % (
                            nm, wn, Jg.tolist(), want.tolist()), case)
                ok = False
    acc.nontriv += int(ok and (vec > 1 or struct != 'sss'))
    acc.outcomes['comp:%s:%s' % (cls, 'ok' if ok else 'violation')] += 1


# ================================================================== enumeration

def _sur_specs(tier):
    T = tier == 'thorough'
    out = [{'type': 'linear'}, {'type': 'linear', 'num_leaves': 1}]
    for nn_ in (None, 2, 3, 5):
        for de in (None, 1, 2, 3.5) + ((0.5, 6) if T else ()):
            out.append({'type': 'weighted', 'num_neighbors': nn_, 'dist_eff': de})
    for nn_ in (None, 3, 4) + ((6,) if T else ()):
        for fam in (None, -2, -1, 0, 1, 2, 3, 4):
            out.append({'type': 'rbf', 'num_neighbors': nn_, 'rbf_family': fam})
    out.append({'type': 'rbf', 'num_leaves': 1})
    for rm in (False, True):
        for drv in (None, 'gesdd', 'gesvd'):
            out.append({'type': 'kriging', 'eval_rmse': rm, 'lapack_driver': drv})
    # training histories: the same inputs trained before with other outputs
    out += [{'type': 'linear', 'pre': 'same_obj'}, {'type': 'weighted', 'pre': 'same_obj'},
            {'type': 'rbf', 'pre': 'same_obj'}, {'type': 'kriging', 'pre': 'same_obj'},
            {'type': 'kriging', 'pre': 'cache'}, {'type': 'kriging', 'pre': 'cache', 'eval_rmse': True}]
    return out


def cases(tier, seed):
    pal = seed % 3
    out = []
    for n in (1, 2, 3):
        for kind in ('lat3', 'lat4'):
            coefs = _coef_lattice(n, tier)
            B = 81
            for i in range(0, len(coefs), B):
                out.append({'kind': 'rs', 'n': n, 'design': kind, 'i0': i, 'i1': min(i + B, len(coefs)),
                            'tier': tier, 'pal': pal})
    for spec in _sur_specs(tier):
        for n in (1, 2, 3):
            for kind in ('lat3', 'lat4', 'cross'):
                if spec['type'] == 'kriging' and tier == 'quick' and n == 3 and kind == 'lat4':
                    continue          # 64-point Kriging training: thorough tier only
                for tab in ('rough', 'smooth'):
                    for nout in (1, 2):
                        out.append({'kind': 'sur', 'n': n, 'design': kind, 'spec': spec, 'table': tab,
                                    'nout': nout, 'pal': pal})
    comp_specs = [{'type': 'rs'}, {'type': 'linear'}, {'type': 'weighted'}, {'type': 'rbf'},
                  {'type': 'rbf', 'rbf_family': -1, 'num_neighbors': 4},
                  {'type': 'kriging'}, {'type': 'kriging', 'eval_rmse': True}]
    for spec in comp_specs:
        for vec in (1, 3):
            for struct in ('sss', 'ssv', 'svs', 'svb', 'vsb'):
                for mode in ('fwd', 'rev'):
                    out.append({'kind': 'comp', 'spec': spec, 'vec': vec, 'struct': struct,
                                'mode': mode, 'pal': pal})
    return out


def check_case(case):
    acc = _Acc()
    kind = case['kind']
    base = {}
    if kind == 'rs':
        coefs = _coef_lattice(case['n'], case['tier'])[case['i0']:case['i1']]
        check_rs(acc, case['n'], case['design'], coefs, base)
        # the same quadratics one at a time (single-output training) for the first few
        for c in coefs[:3]:
            check_rs(acc, case['n'], case['design'], [c], base)
    elif kind == 'rs1':
        check_rs(acc, case['n'], case['design'], case['coefs'], base)
    elif kind in ('sur', 'sur1'):
        check_sur(acc, case['n'], case['design'], case['spec'], case['table'], case['nout'],
                  case['pal'], base)
    elif kind in ('comp', 'comp1'):
        check_comp(acc, case['spec'], case['vec'], case['struct'], case['mode'], case['pal'], base)
    else:
        raise ValueError(kind)
    smp = {k: v for k, v in case.items() if k != 'coefs'}
    return acc.result(smp)
