"""C29 - wrapped input files parse back to the values written (DESIGN.md section 4, C29).

Complete enumeration of (template shape, delimiter, anchor mode, target position, value) for the
three writers of InputFileGenerator; the generated file is read back with FileParser from the same
location (transfer_var, transfer_keyvar, 'columns' mode, transfer_array, transfer_2Darray).

Oracle (independent of file_wrap.py): the template is built by the harness from token lists, so
the expected content of every location is known by construction:
  * read(write(v)) == v  (floats: relative 6e-16, i.e. 16 significant digits; nan is nan; the sign
    of inf is preserved; int stays int and float stays float for the scalar readers),
  * every line other than the target line(s) is textually unchanged; on a target line every other
    token is textually unchanged and still parses to its known value.
"""
import collections
import math
import os
import re

import numpy as np

ID = 'C29'
LEVEL = 'exploration'
TECHNIQUE = ('bounded exhaustive enumeration of template shape x delimiter x anchor mode x target '
             'position x value for every writer/reader pair; expected file content known by '
             'construction')
RULE = ('templates of 1-3 data lines x 1-4 fields in two anchored blocks, 5 delimiter sets + column '
        'mode, 8 anchor modes, every (row, field) target, every value of the palette (special '
        'floats, ints, strings; arrays of length 1-4 shorter, equal and longer than the template '
        'span; wrapped and 2-D arrays); one evaluation = one write followed by one read-back through '
        'one reader; non-trivial = the written text differs from the template token it replaces and '
        'the file has other fields that must stay intact')
LEVEL_TEXT = ('Every combination of template shape, delimiter, anchor mode, target position and value '
              'class inside the bound is written with the real InputFileGenerator and read back with '
              'the real FileParser; the defects of this code are combinations of value spelling '
              '(sign, exponent, inf/nan), writer and reader, which the bounded product enumerates '
              'completely.')
LEVEL_NOTE = ('Values outside the palette, templates larger than 3x4, comment characters and '
              'free-form multi-character tokens are not covered; anchor search is exercised with the '
              'same calls on both sides plus an independent row computation.')
ASSUMPTIONS = [
    'the writer and the reader are given the same delimiter characters; "columns" is a reader-only '
    'mode and is given the character span that the written token occupies in the generated file',
    'strings are limited to tokens that do not look like numbers ("abc", "a1"); the documented '
    'special spellings Inf, -Inf, NaN written as text may come back as text or as the float they spell',
    'readers of arrays return float arrays: only values are compared there; int/float type is '
    'required to be preserved by transfer_var / transfer_keyvar only',
    'the sign of zero is not required to survive',
    'an array shorter than the template span may either be rejected with ValueError (documented) or '
    'fill the first len(array) fields and leave the rest of the span untouched',
    'an array longer than the template span is only written to spans that end at the end of a line '
    '(extra values are appended to the line)',
    'bool values and numpy scalar types other than float64/int64 are outside the statement',
]
MIN_NONTRIVIAL = {'quick': 25000, 'thorough': 250000}
CHUNK = 1

# ----------------------------------------------------------------------------------------------
# alphabet

INF = float('inf')
NAN = float('nan')

FLOATS = [0.0, -0.0, 1.0, -1.5, 0.1, 1.0 / 3.0, 1e-7, -1e-7, 3e-5, -3e-5, 1e20, -1e20, 1e300,
          5e-324, 1.7976931348623157e308, INF, -INF, NAN]
INTS = [0, -7, 12345678901234567890]
STRS = ['abc', 'a1']
# text tokens that the reader documents as special floats: written as text they must come back either
# as the same text or as the float they spell (never as a different value)
SPECIAL_STRS = {'Inf': INF, '-Inf': -INF, 'NaN': NAN}
# seed-selected extra generic floats (all validated on the unchanged tree)
EXTRA = [[2.75, -0.0625, 123.456, -9.87e-3],
         [-3.25, 0.1875, 6.02214076e23, -1.25e-3],
         [19.5, -0.4375, 2.718281828459045, -7.5e10],
         [-11.25, 0.03125, 3.141592653589793, 4.25e-12]]

DELIMS = [' ', ',', '=', ', ', '\t']
JOIN = {' ': ' ', ',': ',', '=': '=', ', ': ', ', '\t': '\t'}
ANCHORS = ['none', 'first', 'nth', 'neg1', 'neg2', 'twice', 'midline', 'nth_negrow']

# filler tokens by (block, row, field): distinct, known parse result, all three kinds in every row
FILL = [[['ka', '7', '2.5', 'w9'], ['kb', '-3', '0.125', '11'], ['6.5', '-4', 'kc', '-0.75']],
        [['ma', '8', '3.5', 'v4'], ['mb', '-5', '0.375', '13'], ['9.5', '-6', 'mc', '-0.25']]]


def _tok_value(tok):
    if re.fullmatch(r'-?\d+', tok):
        return int(tok)
    if re.fullmatch(r'-?\d+\.\d+', tok):
        return float(tok)
    return tok


def value_class(v):
    """structural class of a value (for signatures)"""
    if isinstance(v, str):
        return 'str_' + v if v in SPECIAL_STRS else 'str'
    if isinstance(v, (bool, np.bool_)):
        return 'bool'
    if isinstance(v, (int, np.integer)):
        v = int(v)
        return 'bigint' if abs(v) >= 2 ** 63 else ('negint' if v < 0 else 'int')
    v = float(v)
    if math.isnan(v):
        return 'nan'
    if math.isinf(v):
        return 'inf' if v > 0 else '-inf'
    if v == 0.0:
        return 'zero'
    s = '%.16g' % v
    neg = 'neg_' if v < 0 else ''
    if v == int(v):
        return neg + 'integral_float'
    if 'e' in s and '.' not in s:
        return neg + 'exp_without_dot'
    if 'e' in s:
        return neg + 'exp_float'
    return neg + 'float'


def same_value(got, want, typed=True):
    """read-back equality of the property statement"""
    if isinstance(want, str):
        if isinstance(got, str):
            return got == want
        return want in SPECIAL_STRS and same_value(got, SPECIAL_STRS[want])
    if isinstance(got, (str, bytes)) or got is None:
        return False
    if isinstance(want, (int, np.integer)) and not isinstance(want, bool):
        if typed and not isinstance(got, (int, np.integer)):
            return False
        try:
            return int(got) == int(want) if isinstance(got, (int, np.integer)) else \
                float(got) == float(want)
        except (TypeError, ValueError, OverflowError):
            return False
    want = float(want)
    if typed and not isinstance(got, (float, np.floating)):
        return False
    try:
        got = float(got)
    except (TypeError, ValueError):
        return False
    if math.isnan(want):
        return math.isnan(got)
    if math.isinf(want):
        return got == want
    if math.isnan(got) or math.isinf(got):
        return False
    return abs(got - want) <= 6e-16 * abs(want)     # half a unit of the 16th significant digit


# ----------------------------------------------------------------------------------------------
# template construction (reference side)

class Template(object):
    """Two anchored blocks of nl data lines x nf fields:
         top 1 2 / MARK / block0 lines / MARK / block1 lines / end"""

    def __init__(self, nl, nf, delim):
        self.nl, self.nf, self.delim = nl, nf, delim
        self.join = JOIN[delim]
        self.tokens = []          # per file line: list of tokens
        self.tokens.append(['top'])
        self.block_start = []
        for b in range(2):
            self.tokens.append(['MARK'])
            self.block_start.append(len(self.tokens))
            for r in range(nl):
                self.tokens.append(list(FILL[b][r][:nf]))
        self.tokens.append(['end'])

    def lines(self, tokens=None):
        return [self.join.join(t) + '\n' for t in (tokens or self.tokens)]

    def split(self, line):
        return [t for t in re.split('[' + re.escape(self.delim) + '\n]+', line) if t != '']


def anchor_plan(mode, tpl, block, r):
    """-> (list of (anchor, occurrence) calls, row argument) addressing data row r of `block`;
    None if the mode cannot address it.  Reference semantics of mark_anchor from its docstring:
    the n-th line containing the text counted from the current anchor (-n: from the end); a second
    call continues after the current anchor; rows are offsets from the anchor line."""
    abs_row = tpl.block_start[block] + r
    if mode == 'none':
        return [], abs_row
    if mode == 'first':
        return ([('MARK', 1)], r + 1) if block == 0 else None
    if mode == 'nth':
        return ([('MARK', 2)], r + 1) if block == 1 else None
    if mode == 'neg1':
        return ([('MARK', -1)], r + 1) if block == 1 else None
    if mode == 'neg2':
        return ([('MARK', -2)], r + 1) if block == 0 else None
    if mode == 'twice':
        return ([('MARK', 1), ('MARK', 1)], r + 1) if block == 1 else None
    if mode == 'midline':
        # anchor text inside data row 0 of block 0 (its first token 'ka')
        return ([('ka', 1)], r) if block == 0 else None
    if mode == 'nth_negrow':
        # anchored at the second MARK, negative offsets back into block 0
        if block != 0:
            return None
        second_mark = tpl.block_start[1] - 1
        return [('MARK', 2)], abs_row - second_mark
    raise ValueError(mode)


# ----------------------------------------------------------------------------------------------
# one write + read-backs

# the workers share one scratch cwd: file names are per process
_TPL = 'c29_template_%d.dat' % os.getpid()
_OUT = 'c29_generated_%d.dat' % os.getpid()


_TPL_WRITTEN = None


def _write(tpl, plan, writer, wargs):
    from openmdao.utils.file_wrap import InputFileGenerator
    global _TPL_WRITTEN
    text = ''.join(tpl.lines())
    if _TPL_WRITTEN != text:
        with open(_TPL, 'w') as f:
            f.write(text)
        _TPL_WRITTEN = text
    if os.path.exists(_OUT):
        os.remove(_OUT)
    gen = InputFileGenerator()
    gen.set_template_file(_TPL)
    gen.set_generated_file(_OUT)
    gen.set_delimiters(tpl.delim)
    for anchor, occ in plan:
        gen.mark_anchor(anchor, occ)
    getattr(gen, writer)(*wargs)
    gen.generate()
    with open(_OUT) as f:
        return f.readlines()


_PARSERS = {}


def _parser(tpl, plan, delim=None):
    """One FileParser per delimiter setting and worker process (building its pyparsing grammar costs
    2 ms, more than a whole round trip); every read re-reads the generated file and restarts from a
    reset anchor, which is ordinary use of the API."""
    from openmdao.utils.file_wrap import FileParser
    delim = delim or tpl.delim
    p = _PARSERS.get(delim)
    if p is None:
        p = FileParser()
        p.set_delimiters(delim)
        _PARSERS[delim] = p
    p.set_file(_OUT)
    p.reset_anchor()
    for anchor, occ in plan:
        p.mark_anchor(anchor, occ)
    return p


def _first_bad(values):
    """class of the first value the implementation is known to have a spelling issue with, else of
    the first value"""
    vals = list(values)
    for v in vals:
        c = value_class(v)
        if c in ('nan', 'inf', '-inf'):
            return c
    for v in vals:
        c = value_class(v)
        if c.endswith('exp_without_dot'):
            return c
    return value_class(vals[0]) if vals else 'empty'


class Acc(object):
    def __init__(self):
        self.evals = 0
        self.nontrivial = 0
        self.outcomes = collections.Counter()
        self.vios = []
        self._nsig = collections.Counter()

    def vio(self, sig, msg, case):
        if case.get('delim') == '\t' and sig.split(':')[1] == 'read_raises':
            # a tab-only delimiter is a class of its own on the reader side
            sig = sig.rsplit(':', 1)[0] + ':tab_only_delimiter'
        self._nsig[sig] += 1
        if self._nsig[sig] <= 2:
            self.vios.append({'sig': sig, 'msg': msg, 'case': case})

    def result(self, sample=None):
        d = {'evals': self.evals, 'nontrivial': self.nontrivial, 'outcome': dict(self.outcomes),
             'violations': self.vios}
        if sample is not None:
            d['sample'] = sample
        return d


def _check_untouched(acc, tpl, out_lines, target_rows, case, wr, vcls, lcls=None):
    """all lines except the target rows are textually identical to the template"""
    ref_lines = tpl.lines()
    if len(out_lines) != len(ref_lines):
        acc.vio('C29:line_count:%s:%s' % (wr, lcls or vcls),
                'generated file has %d lines, template %d: %r' % (
                    len(out_lines), len(ref_lines), out_lines), case)
        return False
    for i, (a, b) in enumerate(zip(out_lines, ref_lines)):
        if i not in target_rows and a != b:
            acc.vio('C29:other_line_changed:%s:%s' % (wr, vcls),
                    'line %d changed from %r to %r (target rows %s)' % (i, b, a, sorted(target_rows)),
                    case)
            return False
    return True


def check_scalar(acc, nl, nf, delim, mode, block, r, f, value, case=None):
    """transfer_var write of `value` at data row r / field f (1-based) of `block`; read back with
    transfer_var, transfer_keyvar and column mode; other fields checked."""
    tpl = Template(nl, nf, delim)
    ap = anchor_plan(mode, tpl, block, r)
    if ap is None:
        return
    plan, row = ap
    abs_row = tpl.block_start[block] + r
    old = tpl.tokens[abs_row][f - 1]
    if mode == 'midline' and old == 'ka':
        return       # would overwrite the anchor text itself
    case = case or {'kind': 'scalar1', 'nl': nl, 'nf': nf, 'delim': delim, 'mode': mode,
                    'block': block, 'r': r, 'f': f, 'value': value}
    vcls = value_class(value)
    where = 'delim=%r anchor=%s row=%d field=%d' % (delim, mode, row, f)

    acc.evals += 1
    try:
        out = _write(tpl, plan, 'transfer_var', (value, row, f))
    except Exception as exc:
        acc.vio('C29:write_raises:transfer_var:%s' % vcls,
                'transfer_var(%r) %s raised %s: %s' % (value, where, type(exc).__name__, exc), case)
        return
    if not _check_untouched(acc, tpl, out, {abs_row}, case, 'transfer_var', vcls):
        return
    toks = tpl.split(out[abs_row])
    want_toks = list(tpl.tokens[abs_row])
    if len(toks) != len(want_toks) or any(
            a != b for i, (a, b) in enumerate(zip(toks, want_toks)) if i != f - 1):
        acc.vio('C29:other_field_text:transfer_var:%s' % vcls,
                '%s: line %r became %r' % (where, tpl.lines()[abs_row], out[abs_row]), case)
        return
    written = toks[f - 1]
    nontrivial = int(written != old and (nf > 1 or nl > 1))

    # ---- reader 1: transfer_var on every field of the target line
    try:
        p = _parser(tpl, plan)
        got_line = [p.transfer_var(row, k) for k in range(1, nf + 1)]
    except Exception as exc:
        acc.vio('C29:read_raises:transfer_var/transfer_var:%s' % vcls,
                '%s wrote %r; reading the line raised %s: %s' % (
                    where, out[abs_row], type(exc).__name__, exc), case)
        return
    if not same_value(got_line[f - 1], value):
        acc.vio('C29:read_value:transfer_var/transfer_var:%s' % vcls,
                '%s wrote %r as %r; read back %r (%s)' % (
                    where, value, written, got_line[f - 1], type(got_line[f - 1]).__name__), case)
        return
    for k in range(nf):
        if k != f - 1 and not same_value(got_line[k], _tok_value(want_toks[k])):
            acc.vio('C29:other_field_value:transfer_var/transfer_var:%s' % vcls,
                    '%s wrote %r; field %d now reads %r, expected %r' % (
                        where, out[abs_row], k + 1, got_line[k], _tok_value(want_toks[k])), case)
            return
    acc.nontrivial += nontrivial
    acc.outcomes['var/var:' + vcls] += 1

    # ---- reader 2: transfer_keyvar when the line starts with a string key that is not the target
    key = want_toks[0]
    if f > 1 and row >= 0 and isinstance(_tok_value(key), str):
        acc.evals += 1
        # key occurrence counted from the current anchor row
        start = 0
        if plan:
            start = abs_row - row
        occ = 0
        for i in range(start, abs_row + 1):
            if key in out[i]:
                occ += 1
        try:
            got = _parser(tpl, plan).transfer_keyvar(key, f - 1, occ)
        except Exception as exc:
            acc.vio('C29:read_raises:transfer_var/transfer_keyvar:%s' % vcls,
                    '%s key=%r raised %s: %s' % (where, key, type(exc).__name__, exc), case)
            return
        if not same_value(got, value):
            acc.vio('C29:read_value:transfer_var/transfer_keyvar:%s' % vcls,
                    '%s wrote %r as %r; transfer_keyvar(%r, %d, %d) = %r' % (
                        where, value, written, key, f - 1, occ, got), case)
            return
        acc.nontrivial += nontrivial
        acc.outcomes['var/keyvar:' + vcls] += 1

    # ---- reader 3: column mode (character span of the written token)
    if delim == ' ':
        acc.evals += 1
        spans = [m.span() for m in re.finditer(r'[^ \n]+', out[abs_row])]
        s, e = spans[f - 1]
        try:
            got = _parser(tpl, plan, 'columns').transfer_var(row, s + 1, e)
        except Exception as exc:
            acc.vio('C29:read_raises:transfer_var/columns:%s' % vcls,
                    '%s columns %d-%d raised %s: %s' % (where, s + 1, e, type(exc).__name__, exc),
                    case)
            return
        if not same_value(got, value):
            acc.vio('C29:read_value:transfer_var/columns:%s' % vcls,
                    '%s wrote %r as %r; columns %d-%d read %r' % (
                        where, value, written, s + 1, e, got), case)
            return
        acc.nontrivial += nontrivial
        acc.outcomes['var/columns:' + vcls] += 1


def _array_equal(got, want):
    got = np.asarray(got)
    if got.shape != (len(want),):
        return False
    return all(same_value(g.item() if hasattr(g, 'item') else g, w, typed=False)
               for g, w in zip(got, want))


def check_array(acc, nl, nf, delim, mode, block, r, f0, f1, r_end, values, as_ndarray, case=None):
    """transfer_array write of `values` into fields f0..f1 (row r; wrapping to row r_end, where the
    span ends at f1); read back with transfer_array (+ transfer_var per element, + columns)."""
    tpl = Template(nl, nf, delim)
    ap = anchor_plan(mode, tpl, block, r)
    if ap is None:
        return
    plan, row = ap
    abs0 = tpl.block_start[block] + r
    nrows = r_end - r + 1
    # template span: (abs_row, field index) list in writing order
    span = []
    for i in range(nrows):
        lo = f0 if i == 0 else 1
        hi = f1 if i == nrows - 1 else nf
        span += [(abs0 + i, k) for k in range(lo, hi + 1)]
    if mode == 'midline' and any(tpl.tokens[a][k - 1] == 'ka' for a, k in span):
        return
    n = len(values)
    if n > len(span) and f1 != nf:
        return      # longer arrays only where the span ends at the end of the line
    case = case or {'kind': 'array1', 'nl': nl, 'nf': nf, 'delim': delim, 'mode': mode,
                    'block': block, 'r': r, 'f0': f0, 'f1': f1, 'r_end': r_end,
                    'values': list(values), 'nd': as_ndarray}
    vcls = _first_bad(values)
    rel = 'short' if n < len(span) else ('long' if n > len(span) else 'fit')
    wr = 'transfer_array'
    where = 'delim=%r anchor=%s rows=%d..%d fields=%d..%d (%s array of %d)' % (
        delim, mode, row, row + nrows - 1, f0, f1, rel, n)
    val = np.array(values) if as_ndarray else list(values)
    acc.evals += 1
    try:
        out = _write(tpl, plan, wr, (val, row, f0, f1, row + nrows - 1 if nrows > 1 else None,
                                     JOIN[delim]))
    except ValueError as exc:
        if rel == 'short' and 'too small' in str(exc):
            acc.outcomes['array_short_rejected'] += 1
            return
        acc.vio('C29:write_raises:%s:%s' % (wr, vcls), '%s raised ValueError: %s' % (where, exc),
                case)
        return
    except Exception as exc:
        acc.vio('C29:write_raises:%s:%s' % (wr, vcls), '%s values=%r raised %s: %s' % (
            where, values, type(exc).__name__, exc), case)
        return
    rows = set(a for a, _ in span)
    if not _check_untouched(acc, tpl, out, rows, case, wr, vcls, rel + '_array'):
        return
    # expected tokens of the target rows
    exp = {a: list(tpl.tokens[a]) for a in rows}
    placed = []       # (abs_row, field, value)
    for (a, k), v in zip(span, values):
        exp[a][k - 1] = None
        placed.append((a, k, v))
    last = abs0 + nrows - 1
    for j, v in enumerate(values[len(span):]):
        exp[last].append(None)
        placed.append((last, nf + 1 + j, v))
    for a in sorted(rows):
        toks = tpl.split(out[a])
        if len(toks) != len(exp[a]) or any(w is not None and t != w for t, w in zip(toks, exp[a])):
            acc.vio('C29:other_field_text:%s:%s' % (wr, vcls), '%s: line %r became %r' % (
                where, tpl.lines()[a], out[a]), case)
            return
    nontrivial = int(n >= 1)

    # ---- reader A: transfer_var for every field of the target rows
    try:
        p = _parser(tpl, plan)
        got = {a: [p.transfer_var(row + (a - abs0), k) for k in range(1, len(exp[a]) + 1)]
               for a in rows}
    except Exception as exc:
        acc.vio('C29:read_raises:%s/transfer_var:%s' % (wr, vcls), '%s wrote %r; raised %s: %s' % (
            where, [out[a] for a in sorted(rows)], type(exc).__name__, exc), case)
        return
    for a, k, v in placed:
        # ints written through an ndarray are numpy ints: value equality, python type not required
        if not same_value(got[a][k - 1], v, typed=not as_ndarray or isinstance(v, float)):
            acc.vio('C29:read_value:%s/transfer_var:%s' % (wr, value_class(v)),
                    '%s wrote %r; element %r reads back as %r from line %r' % (
                        where, values, v, got[a][k - 1], out[a]), case)
            return
    for a in rows:
        for k, w in enumerate(exp[a]):
            if w is not None and not same_value(got[a][k], _tok_value(w)):
                acc.vio('C29:other_field_value:%s/transfer_var:%s' % (wr, vcls),
                        '%s: field %d of %r reads %r expected %r' % (
                            where, k + 1, out[a], got[a][k], _tok_value(w)), case)
                return
    acc.nontrivial += nontrivial
    acc.outcomes['array/var:%s:%s' % (rel, vcls)] += 1

    # ---- reader B: transfer_array over exactly the written locations (numeric values only)
    if n and not any(isinstance(v, str) for v in values):
        acc.evals += 1
        if rel == 'long':
            fe, re_ = nf + (n - len(span)), row + nrows - 1
        elif rel == 'short':
            a_last, k_last, _ = placed[-1]
            fe, re_ = k_last, row + (a_last - abs0)
        else:
            fe, re_ = f1, row + nrows - 1
        try:
            garr = _parser(tpl, plan).transfer_array(row, f0, re_, fe)
        except Exception as exc:
            acc.vio('C29:read_raises:%s/transfer_array:%s' % (wr, vcls), '%s raised %s: %s' % (
                where, type(exc).__name__, exc), case)
            return
        if not _array_equal(garr, values):
            acc.vio('C29:read_value:%s/transfer_array:%s' % (wr, vcls),
                    '%s wrote %r -> %r; transfer_array(%d, %d, %d, %d) = %r' % (
                        where, values, [out[a] for a in sorted(rows)], row, f0, re_, fe, garr), case)
            return
        acc.nontrivial += nontrivial
        acc.outcomes['array/array:%s:%s' % (rel, vcls)] += 1

        # ---- reader C: column mode on a single row
        if delim == ' ' and nrows == 1:
            acc.evals += 1
            spans = [m.span() for m in re.finditer(r'[^ \n]+', out[abs0])]
            s, e = spans[f0 - 1][0], spans[fe - 1][1]
            try:
                garr = _parser(tpl, plan, 'columns').transfer_array(row, s + 1, row, e)
            except Exception as exc:
                acc.vio('C29:read_raises:%s/columns_array:%s' % (wr, vcls), '%s raised %s: %s' % (
                    where, type(exc).__name__, exc), case)
                return
            if not _array_equal(garr, values):
                acc.vio('C29:read_value:%s/columns_array:%s' % (wr, vcls),
                        '%s wrote %r -> %r; columns %d-%d read %r' % (
                            where, values, out[abs0], s + 1, e, garr), case)
                return
            acc.outcomes['array/columns:%s:%s' % (rel, vcls)] += 1


def check_2d(acc, nl, nf, delim, mode, block, r0, r1, f0, f1, values, case=None):
    """transfer_2Darray write of the (r1-r0+1) x (f1-f0+1) array; read back with transfer_2Darray and
    transfer_var."""
    tpl = Template(nl, nf, delim)
    ap = anchor_plan(mode, tpl, block, r0)
    if ap is None:
        return
    plan, row = ap
    abs0 = tpl.block_start[block] + r0
    nr, nc = r1 - r0 + 1, f1 - f0 + 1
    if mode == 'midline' and any(tpl.tokens[abs0 + i][k - 1] == 'ka'
                                 for i in range(nr) for k in range(f0, f1 + 1)):
        return
    arr = np.array(values).reshape(nr, nc)
    case = case or {'kind': '2d1', 'nl': nl, 'nf': nf, 'delim': delim, 'mode': mode, 'block': block,
                    'r0': r0, 'r1': r1, 'f0': f0, 'f1': f1, 'values': list(values)}
    flat = [x.item() for x in arr.ravel()]
    vcls = _first_bad(flat)
    wr = 'transfer_2Darray'
    where = 'delim=%r anchor=%s rows=%d..%d fields=%d..%d' % (delim, mode, row, row + nr - 1, f0, f1)
    acc.evals += 1
    try:
        out = _write(tpl, plan, wr, (arr, row, row + nr - 1, f0, f1))
    except Exception as exc:
        acc.vio('C29:write_raises:%s:%s' % (wr, vcls), '%s values=%r raised %s: %s' % (
            where, flat, type(exc).__name__, exc), case)
        return
    rows = set(range(abs0, abs0 + nr))
    if not _check_untouched(acc, tpl, out, rows, case, wr, vcls):
        return
    for i in range(nr):
        toks = tpl.split(out[abs0 + i])
        want = tpl.tokens[abs0 + i]
        if len(toks) != len(want) or any(t != w for k, (t, w) in enumerate(zip(toks, want))
                                         if not (f0 <= k + 1 <= f1)):
            acc.vio('C29:other_field_text:%s:%s' % (wr, vcls), '%s: line %r became %r' % (
                where, tpl.lines()[abs0 + i], out[abs0 + i]), case)
            return
    try:
        p = _parser(tpl, plan)
        for i in range(nr):
            for k in range(1, nf + 1):
                g = p.transfer_var(row + i, k)
                if f0 <= k <= f1:
                    w = arr[i, k - f0].item()
                    ok = same_value(g, w, typed=isinstance(w, float))
                else:
                    w = _tok_value(tpl.tokens[abs0 + i][k - 1])
                    ok = same_value(g, w)
                if not ok:
                    what = 'read_value' if f0 <= k <= f1 else 'other_field_value'
                    acc.vio('C29:%s:%s/transfer_var:%s' % (what, wr, value_class(w) if what ==
                                                           'read_value' else vcls),
                            '%s wrote %r; row %d field %d reads %r expected %r' % (
                                where, out[abs0 + i], i, k, g, w), case)
                    return
        acc.outcomes['2d/var:' + vcls] += 1
        acc.evals += 1
        g2 = p.transfer_2Darray(row, f0, row + nr - 1, f1)
    except Exception as exc:
        acc.vio('C29:read_raises:%s/transfer_2Darray:%s' % (wr, vcls), '%s wrote %r; raised %s: %s' % (
            where, [out[a] for a in sorted(rows)], type(exc).__name__, exc), case)
        return
    g2 = np.asarray(g2)
    if g2.shape != (nr, nc) or not all(same_value(g2[i, j].item(), arr[i, j].item(), typed=False)
                                       for i in range(nr) for j in range(nc)):
        acc.vio('C29:read_value:%s/transfer_2Darray:%s' % (wr, vcls),
                '%s wrote %r; transfer_2Darray = %r' % (where, flat, g2.tolist()), case)
        return
    acc.nontrivial += 1
    acc.outcomes['2d/2d:' + vcls] += 1


# ----------------------------------------------------------------------------------------------
# enumeration
#
# The space is the product  structure (shape x delimiter x anchor mode x block x target span)
#                         x value (scalar / array / 2-D array).
# thorough: the full product.  quick: two complete sub-products that share one factor each -
#   "struct": every structure x one representative value per value class,
#   "vals":   every value x the structures of one representative shape (2 x 3, anchors none/first).

def scalar_values(pal):
    return FLOATS + EXTRA[pal] + INTS + STRS + sorted(SPECIAL_STRS)


def scalar_reps(pal):
    return [-1.5, 1.0 / 3.0, -3e-5, 1e20, INF, NAN, -7, 'abc', EXTRA[pal][3], '-Inf']


def float_windows(pal, L, steps=(1,)):
    """cyclic windows over the float list: every value occurs in every position"""
    fl = FLOATS + EXTRA[pal]
    n = len(fl)
    return [[fl[(k + i * st) % n] for i in range(L)] for st in (steps if L > 1 else (1,))
            for k in range(n)]


_INTS = [0, -7, 12, 345, -9, 1000000, 3, 88, -41, 5, 6, 77]


def arrays_for(pal, L, full):
    """list of (values, as_ndarray) of length L"""
    ex = EXTRA[pal]
    if full:
        # L == 1: every float; L >= 2: every second cyclic window (every float occurs in an array,
        # in first or second position)
        out = [(w, True) for w in float_windows(pal, L, (1,))[::(1 if L == 1 else 2)]]
        out += [([_INTS[(k + i) % 6] for i in range(L)], True) for k in range(6)]
    else:
        out = [([ex[0], -1.5, 0.1, 1.0 / 3.0][:L], True),
               ([-3e-5, INF, NAN, 1e-7][:L], True),
               ([-INF, -1e-7, 1e20, ex[3]][:L], True),
               (_INTS[1:1 + L], True)]
    out.append(([1.5, -7, 0.1, 12][:L], False))          # python list: int stays int
    if L == 3:
        out.append((['abc', 2.5, 'a1'], False))
    return out


def spans_for(nl, nf, max_wrapped):
    """(r, r_end, f0, f1, span_length): single-row spans and spans that wrap over following rows"""
    out = []
    for r in range(nl):
        for f0 in range(1, nf + 1):
            for f1 in range(f0, nf + 1):
                out.append((r, r, f0, f1, f1 - f0 + 1))
        for r_end in range(r + 1, nl):
            for f0 in range(1, nf + 1):
                for f1 in range(1, nf + 1):
                    n = (nf - f0 + 1) + (r_end - r - 1) * nf + f1
                    if n <= max_wrapped:
                        out.append((r, r_end, f0, f1, n))
    return out


SHAPES = [(nl, nf) for nl in (1, 2, 3) for nf in (1, 2, 3, 4)]
_ARRAY_MODES_Q = ['none', 'neg1', 'midline']
_ARRAY_MODES_T = ['none', 'first', 'neg1', 'twice', 'midline', 'nth_negrow']


def cases(tier, seed):
    pal = seed % len(EXTRA)
    full = tier == 'thorough'
    out = []
    for kind in ('scalar', 'array', '2d'):
        modes = ANCHORS if kind == 'scalar' else (_ARRAY_MODES_T if full else _ARRAY_MODES_Q)
        delims = DELIMS if (full or kind == 'scalar') else [' ', ', ', '\t']
        for nl, nf in SHAPES:
            for delim in delims:
                for mode in modes:
                    out.append({'kind': kind, 'part': 'struct', 'nl': nl, 'nf': nf, 'delim': delim,
                                'mode': mode, 'pal': pal, 'full': full})
        if not full:
            for delim in DELIMS:
                for mode in ('none', 'first'):
                    out.append({'kind': kind, 'part': 'vals', 'nl': 2, 'nf': 3, 'delim': delim,
                                'mode': mode, 'pal': pal, 'full': True})
    return out


def check_case(case):
    kind = case['kind']
    acc = Acc()
    if kind == 'scalar1':
        check_scalar(acc, case['nl'], case['nf'], case['delim'], case['mode'], case['block'],
                     case['r'], case['f'], case['value'], case)
        return acc.result()
    if kind == 'array1':
        check_array(acc, case['nl'], case['nf'], case['delim'], case['mode'], case['block'],
                    case['r'], case['f0'], case['f1'], case['r_end'], case['values'], case['nd'],
                    case)
        return acc.result()
    if kind == '2d1':
        check_2d(acc, case['nl'], case['nf'], case['delim'], case['mode'], case['block'],
                 case['r0'], case['r1'], case['f0'], case['f1'], case['values'], case)
        return acc.result()
    nl, nf, delim, mode, pal = case['nl'], case['nf'], case['delim'], case['mode'], case['pal']
    full = case['full']
    if kind == 'scalar':
        vals = scalar_values(pal) if full else scalar_reps(pal)
        for block in (0, 1):
            for r in range(nl):
                for f in range(1, nf + 1):
                    for v in vals:
                        check_scalar(acc, nl, nf, delim, mode, block, r, f, v)
    elif kind == 'array':
        for block in (0, 1):
            for r, r_end, f0, f1, n in spans_for(nl, nf, 6 if case['part'] == 'struct' and full else 4):
                for L in (1, 2, 3, 4):
                    if abs(L - n) > 1:
                        continue      # shorter by one, fitting, longer by one
                    for vals, nd in arrays_for(pal, L, full):
                        check_array(acc, nl, nf, delim, mode, block, r, f0, f1, r_end, vals, nd)
    elif kind == '2d':
        fl = FLOATS + EXTRA[pal]
        for block in (0, 1):
            for r0 in range(nl):
                for r1 in range(r0, nl):
                    for f0 in range(1, nf + 1):
                        for f1 in range(f0, nf + 1):
                            size = (r1 - r0 + 1) * (f1 - f0 + 1)
                            starts = range(0, len(fl), 2) if full else (0, 7)
                            for k in starts:
                                vals = [fl[(k + i * 5) % len(fl)] for i in range(size)]
                                check_2d(acc, nl, nf, delim, mode, block, r0, r1, f0, f1, vals)
                            check_2d(acc, nl, nf, delim, mode, block, r0, r1, f0, f1, _INTS[:size])
    else:
        raise ValueError(kind)
    return acc.result(sample={'kind': kind, 'part': case['part'], 'shape': (nl, nf), 'delim': delim,
                              'anchor': mode, 'round_trips': acc.evals})
