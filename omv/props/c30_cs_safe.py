"""C30 - complex-step-safe helpers agree with NumPy and differentiate exactly (DESIGN.md section 4).

Code under test: openmdao/utils/cs_safe.py (abs, norm, arctan2) and openmdao/jax_funcs/smooth.py
(act_tanh, smooth_abs, smooth_max, smooth_min, smooth_round), plus jax ks_max/ks_min in array form.

Enumeration: every real array in P^n (n <= 3; 2x2 arrays from P^4), every call form (python scalar,
NumPy scalar, 0-d, 1-D, 2-D, axis options, broadcasting, one argument complex / the other real) and
every perturbation direction (each coordinate separately, all at once with generic weights).

Oracle: NumPy (np.abs, np.linalg.norm, np.arctan2, np.maximum, ...) on the real inputs; closed-form
derivatives written here; for the jax helpers the canonical tanh-activation formulas in NumPy and
their hand-written derivatives, observed three ways (complex perturbation, jax.jacfwd, jax.jacrev).
"""
import collections
import itertools
import math
import os
import warnings

import numpy as np

os.environ.setdefault('TF_CPP_MIN_LOG_LEVEL', '3')     # XLA's C++ logging: workers must not print

ID = 'C30'
LEVEL = 'exploration'
TECHNIQUE = ('bounded exhaustive enumeration of real arrays in P^n x call forms x perturbation '
             'directions against NumPy values and closed-form derivatives')
RULE = ('every array of P^n, n <= 3, P = 5 dyadic values with zero, sign changes and ties (plus 2x2 '
        'arrays of P^4) x every call form (python/NumPy scalar, 0-d, 1-D, 2-D, axis None/0/1/-1, '
        'broadcast scalar with array, complex y with real x and vice versa) x every perturbation '
        'direction (each coordinate alone, all at once with weights 1,2,-3,..) x shaping parameters '
        'of the smooth helpers; one evaluation = one (function, call form, real input) with all its '
        'directions; non-trivial = a derivative was compared and the input is not in the region where '
        'the function is the identity (abs/norm: has an entry <= 0; arctan2: not in the open first '
        'quadrant; smooth helpers: inside the transition region or a tie)')
LEVEL_TEXT = ('All sign patterns, zeros and ties of short arrays are enumerated completely for every '
              'call form, which covers the discrete part of these helpers (branch on sign of the real '
              'part, masks, axis bookkeeping, which argument is complex); values are probes.')
LEVEL_NOTE = ('Trusted: NumPy reference functions.  Derivative at a kink: the docstrings of cs_safe are '
              'silent, so either one-sided directional derivative is accepted (which one is recorded in '
              'the outcome histogram).  arctan2 at the origin has no derivative: excluded from the '
              'perturbed runs (value on real input is still checked).')
ASSUMPTIONS = [
    'kinks (abs at 0, norm at the zero vector): imag/h must equal the directional derivative for t->0+ '
    'or for t->0- (the docstrings do not say which); everywhere else the two-sided derivative',
    'arrays containing an (y, x) = (0, 0) pair are not perturbed in arctan2 (derivative undefined; the '
    'implementation returns nan there)',
    'negative zero is not in the palette (np.abs(-0.0) is +0.0; cs_safe.abs keeps the sign bit)',
    'smooth helpers: the docstrings describe the functions qualitatively; the reference is the '
    'canonical tanh activation a + (b-a)/2*(1+tanh((x-z)/mu)) and the blends built from it; in the '
    'saturated region they must equal np.maximum/np.minimum/np.abs/np.round (NumPy values)',
    'smooth_round under a complex perturbation: jnp.floor rejects complex dtypes (TypeError); the '
    'docstring promises differentiability (jax AD), not complex-step support, so this rejection is '
    'counted (outcome complex_rejected_by_floor) and the derivative is taken from jax.jacfwd/jacrev',
    'derivative tolerance 1e-12 relative + 8 eps * L with L the largest slope scale of the formula '
    '(jax computes sech^2 as 1 - tanh^2, absolute error 2 ulp(1) times the outer factor)',
]
MIN_NONTRIVIAL = {'quick': 13000, 'thorough': 60000}
CHUNK = 1

_PALETTES = [
    [-2.0, -0.5, 0.0, 0.5, 2.0],
    [-4.0, -0.25, 0.0, 0.75, 1.5],
]
_H = 1e-30
_EPS = np.finfo(float).eps
_W = [1.0, 2.0, -3.0, 5.0, -7.0, 11.0, 13.0, -17.0]       # generic direction weights


def _lat(pal, n):
    return [np.array(t, dtype=float) for t in itertools.product(_PALETTES[pal], repeat=n)]


def _dirs(shape):
    """perturbation directions: every unit vector and one generic all-at-once direction"""
    size = int(np.prod(shape)) if shape != () else 1
    out = []
    for k in range(size):
        d = np.zeros(size)
        d[k] = 1.0
        out.append(d.reshape(shape))
    if size > 1:
        out.append(np.array(_W[:size]).reshape(shape))
    else:
        out.append(np.array([-3.0]).reshape(shape))
    return out


def cases(tier, seed):
    pal = seed % len(_PALETTES)
    if tier == 'thorough':      # both palettes
        return _cases(tier, pal) + _cases(tier, (pal + 1) % len(_PALETTES))
    return _cases(tier, pal)


def _cases(tier, pal):
    out = []
    nmax = 3
    for n in range(1, nmax + 1):
        out.append({'kind': 'abs', 'n': n, 'pal': pal})
        out.append({'kind': 'norm', 'n': n, 'pal': pal})
    out.append({'kind': 'abs2d', 'pal': pal})
    for p0 in range(5):
        out.append({'kind': 'norm2d', 'pal': pal, 'p0': p0})
    for n in (1, 2):
        out.append({'kind': 'arctan2', 'n': n, 'pal': pal, 'p0': None})
    for p0 in range(5):
        out.append({'kind': 'arctan2', 'n': 3, 'pal': pal, 'p0': p0})
    mus = [0.01, 0.5, 2.0] if tier == 'quick' else [0.01, 0.125, 0.5, 2.0]
    for fn in ('act_tanh', 'smooth_abs', 'smooth_round'):
        for n in (1, 2, 3):
            for mu in mus + [None]:
                out.append({'kind': 'jax1arg', 'fn': fn, 'n': n, 'mu': mu, 'pal': pal})
    for fn in ('smooth_max', 'smooth_min'):
        for mu in mus + [None]:
            out.append({'kind': 'jax2arg', 'fn': fn, 'n': 1, 'mu': mu, 'pal': pal, 'p0': None})
            for p0 in range(5):
                out.append({'kind': 'jax2arg', 'fn': fn, 'n': 2, 'mu': mu, 'pal': pal, 'p0': p0})
            if tier == 'thorough':
                for p0 in range(25):
                    out.append({'kind': 'jax2arg', 'fn': fn, 'n': 3, 'mu': mu, 'pal': pal, 'p0': p0})
    for n in (1, 2, 3):
        for rho in (1.0, 50.0):
            out.append({'kind': 'jaxks', 'n': n, 'rho': rho, 'pal': pal})
    return out


class _Acc(object):
    def __init__(self):
        self.evals = 0
        self.nontriv = 0
        self.outcomes = collections.Counter()
        self.vios = []
        self.seen = collections.Counter()

    def vio(self, sig, msg, case):
        self.seen[sig] += 1
        if self.seen[sig] <= 2:
            self.vios.append({'sig': sig, 'msg': msg + ' :: ' + repr(case)[:300], 'case': case})

    def result(self, sample=None):
        r = {'evals': self.evals, 'nontrivial': self.nontriv, 'outcome': dict(self.outcomes),
             'violations': self.vios}
        if sample is not None:
            r['sample'] = sample
        return r


def _call(fn, *a, **kw):
    """call the implementation; returns (value, None) or (None, exception).  Warnings are errors
    (a RuntimeWarning from a helper on an admissible input is a finding)."""
    try:
        with warnings.catch_warnings():
            warnings.simplefilter('error')
            return fn(*a, **kw), None
    except Exception as exc:      # classified by the caller
        return None, exc


def _close(got, want, rtol, atol):
    got = np.asarray(got, dtype=float)
    want = np.asarray(want, dtype=float)
    return got.shape == want.shape and bool(np.all(np.abs(got - want) <= rtol * np.abs(want) + atol))


# ------------------------------------------------------------------ cs_safe.abs

def _as_form(x, form, cplx=None):
    """build the argument in the requested call form from a real array x (+ imaginary part)"""
    z = x if cplx is None else x + 1j * cplx
    if form == 'array':
        return z
    if form == '0d':
        return np.array(z.ravel()[0])
    if form == 'npscalar':
        return z.ravel()[0]
    if form == 'pyscalar':
        v = z.ravel()[0]
        return complex(v) if cplx is not None else float(v)
    raise ValueError(form)


def check_abs(acc, x, form):
    from openmdao.utils import cs_safe
    x = np.asarray(x, dtype=float)
    case = {'kind': 'abs1', 'x': x, 'form': form}
    cls = '%s:%s' % (form, 'kink' if np.any(x == 0) else ('neg' if np.any(x < 0) else 'pos'))
    want = np.abs(x) if form == 'array' else np.abs(x.ravel()[0])
    got, exc = _call(cs_safe.abs, _as_form(x, form))
    if exc is not None:
        acc.vio('C30:abs.raises_real:%s:%s' % (type(exc).__name__, cls), repr(exc), case)
        return
    if np.iscomplexobj(got) or np.shape(got) != np.shape(want) or not np.array_equal(got, want):
        acc.vio('C30:abs.value:%s' % cls, 'abs=%r, np.abs=%r' % (got, want), case)
        return
    side = set()
    ok = True
    for d in _dirs(x.shape if form == 'array' else ()):
        d = d if form == 'array' else np.full(x.shape, d.ravel()[0])
        got, exc = _call(cs_safe.abs, _as_form(x, form, _H * d))
        if exc is not None:
            acc.vio('C30:abs.raises_complex:%s:%s' % (type(exc).__name__, cls), repr(exc), case)
            ok = False
            break
        got = np.asarray(got)
        xx, dd = (x, d) if form == 'array' else (x.ravel()[:1].reshape(()), d.ravel()[:1].reshape(()))
        if got.shape != xx.shape or not np.array_equal(got.real, np.abs(xx)):
            acc.vio('C30:abs.real_part:%s' % cls, 'real part %r, np.abs=%r' % (got.real, np.abs(xx)),
                    case)
            ok = False
            break
        der = got.imag / _H
        smooth = np.sign(xx) * dd
        at0 = xx == 0
        good = np.where(at0, np.abs(np.abs(der) - np.abs(dd)) <= 1e-15 * np.abs(dd),
                        np.abs(der - smooth) <= 1e-15 * np.abs(dd))
        if not np.all(good):
            acc.vio('C30:abs.derivative:%s' % cls, 'imag/h=%r, expected sign(x)*d=%r (+-|d| where x == 0; '
                    'direction d=%r)' % (der, smooth, dd), case)
            ok = False
            break
        if np.any(at0 & (dd != 0)):
            s = np.sign(der[at0 & (dd != 0)] * np.sign(dd[at0 & (dd != 0)]))
            side.update('t->0+' if v > 0 else 't->0-' for v in np.atleast_1d(s))
    acc.evals += 1
    acc.nontriv += int(bool(np.any(x <= 0)))
    lab = 'abs:%s' % cls
    if side:
        lab += ':' + '/'.join(sorted(side))
    acc.outcomes[lab if ok else 'abs:violation'] += 1


# ------------------------------------------------------------------ cs_safe.norm

def check_norm(acc, x, axis):
    from openmdao.utils import cs_safe
    x = np.asarray(x, dtype=float)
    case = {'kind': 'norm1', 'x': x, 'axis': axis}
    cls = '%dd:axis%s' % (x.ndim, axis)
    want = np.linalg.norm(x, axis=axis)
    got, exc = _call(cs_safe.norm, x, axis=axis) if axis is not None else _call(cs_safe.norm, x)
    if exc is not None:
        acc.vio('C30:norm.raises_real:%s:%s' % (type(exc).__name__, cls), repr(exc), case)
        return
    if np.iscomplexobj(got) or np.shape(got) != np.shape(want) or \
            not _close(got, want, 2 * _EPS, 0.0):
        acc.vio('C30:norm.value:%s' % cls, 'norm=%r, np.linalg.norm=%r' % (got, want), case)
        return
    ok = True
    kink = False
    for d in _dirs(x.shape):
        got, exc = _call(cs_safe.norm, x + 1j * _H * d, axis=axis)
        if exc is not None:
            acc.vio('C30:norm.raises_complex:%s:%s' % (type(exc).__name__, cls), repr(exc), case)
            ok = False
            break
        got = np.asarray(got)
        if got.shape != np.shape(want) or not _close(got.real, want, 2 * _EPS, 0.0):
            acc.vio('C30:norm.real_part:%s' % cls, 'real part %r, np.linalg.norm=%r' % (got.real, want),
                    case)
            ok = False
            break
        der = got.imag / _H
        nrm = np.asarray(want, dtype=float)
        num = np.sum(x * d, axis=axis)
        dn = np.sqrt(np.sum(d * d, axis=axis))
        with np.errstate(divide='ignore', invalid='ignore'):
            smooth = np.where(nrm > 0, num / np.where(nrm > 0, nrm, 1.0), 0.0)
        at0 = nrm == 0
        good = np.where(at0, np.abs(np.abs(der) - dn) <= 4 * _EPS * dn,
                        np.abs(der - smooth) <= 8 * _EPS * dn)
        if not np.all(good):
            acc.vio('C30:norm.derivative:%s:%s' % (cls, 'kink' if np.any(at0) else 'smooth'),
                    'imag/h=%r, expected x.d/|x|=%r (|d|=%r at the zero vector), direction %r' % (
                        der, smooth, dn, d), case)
            ok = False
            break
        kink = kink or bool(np.any(at0 & (dn > 0)))
    acc.evals += 1
    acc.nontriv += int(bool(np.any(x <= 0)))
    acc.outcomes[('norm:%s:%s' % (cls, 'kink' if kink else 'smooth')) if ok else 'norm:violation'] += 1


# ------------------------------------------------------------------ cs_safe.arctan2

def _quad(y, x):
    y = np.asarray(y).ravel()
    x = np.asarray(x).ravel()
    labs = set()
    for a, c in zip(np.broadcast_to(y, np.broadcast(y, x).shape), np.broadcast_to(
            x, np.broadcast(y, x).shape)):
        if a == 0 and c == 0:
            labs.add('O')
        elif a == 0:
            labs.add('+x' if c > 0 else '-x')
        elif c == 0:
            labs.add('+y' if a > 0 else '-y')
        else:
            labs.add('Q%d' % (1 if (a > 0 and c > 0) else 2 if a > 0 else 3 if c < 0 else 4))
    return labs


def check_arctan2(acc, y, x, form):
    """form: 'array' (same shapes), 'pyscalar', 'bcast_y' (scalar y, array x), 'bcast_x'"""
    from openmdao.utils import cs_safe
    y = np.asarray(y, dtype=float)
    x = np.asarray(x, dtype=float)
    case = {'kind': 'arctan2_1', 'y': y, 'x': x, 'form': form}

    def mk(v, im):
        if form == 'pyscalar':
            return complex(v.ravel()[0], im.ravel()[0]) if im is not None else float(v.ravel()[0])
        if v.size == 1 and form in ('bcast_y', 'bcast_x'):
            return (v.ravel()[0] + 1j * im.ravel()[0]) if im is not None else v.ravel()[0]
        return (v + 1j * im) if im is not None else v

    want = np.arctan2(y, x) if form != 'pyscalar' else np.arctan2(y.ravel()[0], x.ravel()[0])
    quads = _quad(y, x)
    cls = form
    got, exc = _call(cs_safe.arctan2, mk(y, None), mk(x, None))
    if exc is not None:
        acc.vio('C30:arctan2.raises_real:%s:%s' % (type(exc).__name__, cls), repr(exc), case)
        return
    if np.iscomplexobj(got) or np.shape(got) != np.shape(want) or not np.array_equal(got, want):
        acc.vio('C30:arctan2.value:%s' % cls, 'arctan2=%r, np.arctan2=%r' % (got, want), case)
        return
    acc.evals += 1
    if 'O' in quads:
        acc.outcomes['arctan2:%s:origin_value_only' % form] += 1
        return
    ok = True
    yb, xb = np.broadcast_arrays(y, x)
    r2 = xb ** 2 + yb ** 2
    # which argument carries the perturbation: y only (x stays real dtype), x only, both
    for who in ('y', 'x', 'both'):
        dys = _dirs(y.shape) if who in ('y', 'both') else [None]
        dxs = _dirs(x.shape) if who in ('x', 'both') else [None]
        if who == 'both':
            pairs = [(dys[-1], dxs[0]), (dys[0], -2.0 * dxs[-1])]
        else:
            pairs = [(a, b) for a in dys for b in dxs]
        for dy, dx in pairs:
            got, exc = _call(cs_safe.arctan2, mk(y, None if dy is None else _H * dy),
                             mk(x, None if dx is None else _H * dx))
            if exc is not None:
                acc.vio('C30:arctan2.raises_complex:%s:%s:%s' % (type(exc).__name__, cls, who),
                        repr(exc), case)
                ok = False
                break
            got = np.asarray(got)
            b = np.zeros(y.shape) if dy is None else dy
            d = np.zeros(x.shape) if dx is None else dx
            bb, dd = np.broadcast_arrays(b, d)
            bb, dd = np.broadcast_to(bb, r2.shape), np.broadcast_to(dd, r2.shape)
            exp = (xb * bb - yb * dd) / r2
            if got.shape != np.shape(want) or not np.array_equal(got.real, want):
                acc.vio('C30:arctan2.real_part:%s:%s' % (cls, who), 'real part %r, np.arctan2=%r' % (
                    got.real, want), case)
                ok = False
                break
            der = got.imag / _H
            if not np.all(np.abs(der - exp) <= 4 * _EPS * (np.abs(xb * bb) + np.abs(yb * dd)) / r2):
                acc.vio('C30:arctan2.derivative:%s:%s' % (cls, who),
                        'imag/h=%r, expected (x*dy - y*dx)/(x^2+y^2)=%r for dy=%r dx=%r' % (
                            der, exp, dy, dx), case)
                ok = False
                break
        if not ok:
            break
    acc.nontriv += int(quads != {'Q1'})
    acc.outcomes[('arctan2:%s:%s' % (form, '+'.join(sorted(quads)) if len(quads) == 1 else
                                     'mixed%d' % len(quads))) if ok else 'arctan2:violation'] += 1


# ------------------------------------------------------------------ jax smooth helpers

def _sech2(t):
    with np.errstate(over='ignore'):
        return 1.0 / np.cosh(t) ** 2


def _ref_act(x, mu, z, a, b):
    t = (x - z) / mu
    val = a + 0.5 * (b - a) * (1.0 + np.tanh(t))
    dx = 0.5 * (b - a) * _sech2(t) / mu
    return val, dx


_JAXC = {}


def _jx(name):
    """(function, jitted jacfwd, jitted jacrev) with respect to the array arguments"""
    if name not in _JAXC:
        import jax
        import openmdao.jax_funcs as jf
        f = getattr(jf, name)
        nargs = 2 if name in ('smooth_max', 'smooth_min') else 1
        argn = tuple(range(nargs)) if nargs > 1 else 0
        _JAXC[name] = (f, jax.jit(jax.jacfwd(f, argnums=argn)), jax.jit(jax.jacrev(f, argnums=argn)))
    return _JAXC[name]


def _ref_1arg(fn, x, kw):
    """reference value, derivative, slope scale L, transition mask, NumPy saturated value"""
    if fn == 'act_tanh':
        mu, z, a, b = kw.get('mu', 1e-2), kw.get('z', 0.0), kw.get('a', -1.0), kw.get('b', 1.0)
        val, dx = _ref_act(x, mu, z, a, b)
        t = (x - z) / mu
        sat = np.where(x > z, b, a)
        return val, dx, 0.5 * abs(b - a) / mu, np.abs(t) < 20, sat
    if fn == 'smooth_abs':
        mu = kw.get('mu', 1e-2)
        t = x / mu
        return x * np.tanh(t), np.tanh(t) + t * _sech2(t), 1.0 + np.abs(t), np.abs(t) < 20, np.abs(x)
    if fn == 'smooth_round':
        mu = kw.get('mu', 1e-2)
        fl = np.floor(x)
        t = (x - fl - 0.5) / mu
        return fl + 0.5 * (1.0 + np.tanh(t)), 0.5 * _sech2(t) / mu, 0.5 / mu + 0 * x, np.abs(t) < 20, \
            np.round(x)
    raise ValueError(fn)


def _kwcls(kw):
    return 'default' if not kw else '+'.join(sorted(kw))


def check_jax1(acc, fn, x, kw, form='array'):
    x = np.asarray(x, dtype=float)
    case = {'kind': 'jax1', 'fn': fn, 'x': x, 'kw': dict(kw), 'form': form}
    f, jf, jr = _jx(fn)
    cls = '%s:%s' % (form, _kwcls(kw))
    val, dx, L, trans, sat = _ref_1arg(fn, x, kw)
    arg = x if form == 'array' else float(x.ravel()[0])
    got, exc = _call(f, arg, **kw)
    if exc is not None:
        acc.vio('C30:%s.raises_real:%s:%s' % (fn, type(exc).__name__, cls), repr(exc)[:300], case)
        return
    got = np.asarray(got)
    vscale = np.abs(val) + (abs(kw.get('a', -1.0)) + abs(kw.get('b', 1.0)) if fn == 'act_tanh' else 1.0)
    shape = x.shape if form == 'array' else ()
    if got.shape != shape or not np.all(np.abs(got - np.reshape(val, shape) if form == 'array' else
                                               got - val.ravel()[0]) <= 8 * _EPS * vscale.max()):
        acc.vio('C30:%s.value:%s' % (fn, cls), 'value %r, tanh-activation formula %r' % (got, val), case)
        return
    ok = True
    # saturated region: the NumPy value
    satmask = ~trans
    if fn == 'smooth_round':
        satmask = satmask & (np.abs(x - np.floor(x) - 0.5) > 1e-9)
    if form == 'array' and np.any(satmask):
        if not np.all(np.abs(got[satmask] - sat[satmask]) <= 8 * _EPS * vscale.max()):
            acc.vio('C30:%s.numpy_value:%s' % (fn, cls), 'saturated entries %r, NumPy %r' % (
                got[satmask], sat[satmask]), case)
            ok = False
    tol = lambda d: 1e-12 * np.abs(d) + 8 * _EPS * np.max(L)
    if form == 'array':
        for nm, jac in (('jacfwd', jf), ('jacrev', jr)):
            J, exc = _call(jac, x, **kw)
            if exc is not None:
                acc.vio('C30:%s.%s_raises:%s:%s' % (fn, nm, type(exc).__name__, cls), repr(exc)[:300],
                        case)
                ok = False
                continue
            J = np.asarray(J)
            want = np.diag(dx)
            if J.shape != want.shape or not np.all(np.abs(J - want) <= tol(want)):
                acc.vio('C30:%s.%s:%s' % (fn, nm, cls), '%s=%r, analytic diag %r' % (nm, J, dx), case)
                ok = False
    cplx = 'cs'
    for d in _dirs(shape):
        z = (x + 1j * _H * d) if form == 'array' else complex(x.ravel()[0], _H * float(d))
        got, exc = _call(f, z, **kw)
        if exc is not None:
            if fn == 'smooth_round' and isinstance(exc, TypeError) and 'floor' in str(exc):
                cplx = 'complex_rejected_by_floor'
                break
            acc.vio('C30:%s.raises_complex:%s:%s' % (fn, type(exc).__name__, cls), repr(exc)[:300],
                    case)
            ok = False
            break
        got = np.asarray(got)
        der = got.imag / _H
        want = (dx * d) if form == 'array' else dx.ravel()[0] * float(d)
        dmax = float(np.max(np.abs(d)))
        if got.shape != shape or not np.all(np.abs(der - want) <= 1e-12 * np.abs(want) +
                                            8 * _EPS * np.max(L) * dmax):
            acc.vio('C30:%s.cs_derivative:%s' % (fn, cls), 'imag/h=%r, analytic %r, direction %r' % (
                der, want, d), case)
            ok = False
            break
    acc.evals += 1
    nt = bool(np.any(trans))
    acc.nontriv += int(nt)
    acc.outcomes[('%s:%s:%s:%s' % (fn, cls, 'transition' if nt else 'saturated', cplx)) if ok else
                 fn + ':violation'] += 1


def check_jax2(acc, fn, x, y, kw, form='array'):
    x = np.asarray(x, dtype=float)
    y = np.asarray(y, dtype=float)
    case = {'kind': 'jax2', 'fn': fn, 'x': x, 'y': y, 'kw': dict(kw), 'form': form}
    f, jf, jr = _jx(fn)
    mu = kw.get('mu', 1e-2)
    cls = '%s:%s' % (form, _kwcls(kw))
    t = (x - y) / mu
    s = 0.5 * (1.0 + np.tanh(t))
    sp = 0.5 * _sech2(t) / mu
    if fn == 'smooth_max':
        val = s * x + (1 - s) * y
        fx, fy = s + (x - y) * sp, (1 - s) - (x - y) * sp
        sat = np.maximum(x, y)
    else:
        val = s * y + (1 - s) * x
        fx, fy = (1 - s) - (x - y) * sp, s + (x - y) * sp
        sat = np.minimum(x, y)
    L = 1.0 + np.abs(t)
    vs = np.abs(x) + np.abs(y) + 1.0
    if form == 'array':
        ax, ay = x, y
    elif form == 'pyscalar':
        ax, ay = float(x.ravel()[0]), float(y.ravel()[0])
    elif form == 'bcast_y':           # scalar y against array x
        ax, ay = x, float(y.ravel()[0])
    got, exc = _call(f, ax, ay, **kw)
    if exc is not None:
        acc.vio('C30:%s.raises_real:%s:%s' % (fn, type(exc).__name__, cls), repr(exc)[:300], case)
        return
    got = np.asarray(got)
    shape = () if form == 'pyscalar' else x.shape
    valr = val.ravel()[0] if form == 'pyscalar' else val
    if got.shape != shape or not np.all(np.abs(got - valr) <= 8 * _EPS * vs.max()):
        acc.vio('C30:%s.value:%s' % (fn, cls), 'value %r, formula %r' % (got, val), case)
        return
    ok = True
    trans = (np.abs(t) < 20)
    satmask = ~trans | (x == y)
    if form != 'pyscalar' and np.any(satmask):
        if not np.all(np.abs(got[satmask] - sat[satmask]) <= 8 * _EPS * vs.max()):
            acc.vio('C30:%s.numpy_value:%s' % (fn, cls), 'saturated/tied entries %r, NumPy %r' % (
                got[satmask], sat[satmask]), case)
            ok = False
    if form == 'array':
        for nm, jac in (('jacfwd', jf), ('jacrev', jr)):
            J, exc = _call(jac, x, y, **kw)
            if exc is not None:
                acc.vio('C30:%s.%s_raises:%s:%s' % (fn, nm, type(exc).__name__, cls), repr(exc)[:300],
                        case)
                ok = False
                continue
            for k, (Jk, dk) in enumerate(zip(J, (fx, fy))):
                Jk = np.asarray(Jk)
                want = np.diag(dk)
                if Jk.shape != want.shape or not np.all(np.abs(Jk - want) <= 1e-12 * np.abs(want) +
                                                        8 * _EPS * L.max()):
                    acc.vio('C30:%s.%s:wrt_%s:%s' % (fn, nm, 'xy'[k], cls), '%s=%r, analytic diag %r' % (
                        nm, Jk, dk), case)
                    ok = False
    # complex perturbation of x only (y real), y only, both
    for who in ('x', 'y', 'both'):
        if form == 'bcast_y' and who != 'x':
            dxs = _dirs(x.shape) if who == 'both' else [None]
            dys = [np.array(-3.0)]
        else:
            dxs = _dirs(shape) if who in ('x', 'both') else [None]
            dys = _dirs(shape) if who in ('y', 'both') else [None]
        pairs = [(dxs[-1], dys[0])] if who == 'both' else [(a, b) for a in dxs for b in dys]
        for dx_, dy_ in pairs:
            def mk(v, d, scalar):
                if d is None:
                    return v
                if scalar:
                    return complex(np.ravel(v)[0], _H * float(np.ravel(d)[0]))
                return v + 1j * _H * d
            zx = mk(ax, dx_, form == 'pyscalar')
            zy = mk(ay, dy_, form in ('pyscalar', 'bcast_y'))
            got, exc = _call(f, zx, zy, **kw)
            if exc is not None:
                acc.vio('C30:%s.raises_complex:%s:%s:%s' % (fn, type(exc).__name__, cls, who),
                        repr(exc)[:300], case)
                ok = False
                break
            der = np.asarray(got).imag / _H
            bx = 0.0 if dx_ is None else dx_
            by = 0.0 if dy_ is None else dy_
            want = fx * bx + fy * by
            if form == 'pyscalar':
                want = np.ravel(want)[0]
            dmax = max(float(np.max(np.abs(bx))), float(np.max(np.abs(by))))
            if np.shape(der) != shape or not np.all(np.abs(der - want) <= 1e-12 * np.abs(want) +
                                                    8 * _EPS * L.max() * dmax):
                acc.vio('C30:%s.cs_derivative:%s:%s' % (fn, cls, who),
                        'imag/h=%r, analytic %r (dx=%r dy=%r)' % (der, want, dx_, dy_), case)
                ok = False
                break
        if not ok:
            break
    acc.evals += 1
    nt = bool(np.any(trans))
    acc.nontriv += int(nt)
    lab = 'tie' if np.any(x == y) else ('transition' if nt else 'saturated')
    acc.outcomes[('%s:%s:%s' % (fn, cls, lab)) if ok else fn + ':violation'] += 1


def check_jaxks(acc, x, rho):
    """jax ks_max/ks_min (array form): bracket and jax.grad == softmax weights (closed form)"""
    import jax
    import openmdao.jax_funcs as jf
    x = np.asarray(x, dtype=float)
    case = {'kind': 'jaxks1', 'x': x, 'rho': rho}
    if 'ksg' not in _JAXC:
        _JAXC['ksg'] = {nm: (getattr(jf, nm), jax.jit(jax.grad(getattr(jf, nm)))) for nm in
                        ('ks_max', 'ks_min')}
    ok = True
    for nm, (f, g) in _JAXC['ksg'].items():
        sgn = -1.0 if nm == 'ks_min' else 1.0
        xs = sgn * x
        m = xs.max()
        e = np.exp(rho * (xs - m))
        want = sgn * (m + math.log(e.sum()) / rho)
        w = e / e.sum()
        v, exc = _call(lambda: (float(f(x, rho)), np.asarray(g(x, rho))))
        if exc is not None:
            acc.vio('C30:%s.raises:%s' % (nm, type(exc).__name__), repr(exc)[:300], case)
            ok = False
            continue
        ks, gr = v
        lo, hi = sorted([sgn * m, sgn * (m + math.log(x.size) / rho)])
        tol = 4 * _EPS * max(abs(lo), abs(hi)) + 8 * x.size * _EPS / rho
        if not (lo - tol <= ks <= hi + tol) or abs(ks - want) > tol:
            acc.vio('C30:%s.value' % nm, '%s=%r, bracket [%r, %r], closed form %r' % (nm, ks, lo, hi,
                                                                                   want), case)
            ok = False
        if gr.shape != w.shape or not np.all(np.abs(gr - w) <= 1e-12 * w + 4e-16):
            acc.vio('C30:%s.grad' % nm, 'grad=%r, softmax weights %r' % (gr, w), case)
            ok = False
    acc.evals += 1
    acc.nontriv += int(x.size > 1 and not np.all(x == x[0]))
    acc.outcomes['ks:%s' % ('ok' if ok else 'violation')] += 1


# ------------------------------------------------------------------ dispatch

def _act_kws(mu):
    """parameter sets for act_tanh"""
    if mu is None:
        return [{}]
    return [{'mu': mu}, {'mu': mu, 'z': 0.5}, {'mu': mu, 'z': -0.25, 'a': 2.0, 'b': -3.0},
            {'mu': mu, 'a': 0.0, 'b': 1.0}]


def check_case(case):
    acc = _Acc()
    kind = case['kind']
    pal = case.get('pal', 0)
    P = _PALETTES[pal]
    if kind == 'abs':
        for x in _lat(pal, case['n']):
            check_abs(acc, x, 'array')
            if case['n'] == 1:
                for form in ('pyscalar', 'npscalar', '0d'):
                    check_abs(acc, x, form)
    elif kind == 'abs2d':
        for x in _lat(pal, 4):
            check_abs(acc, x.reshape(2, 2), 'array')
    elif kind == 'norm':
        for x in _lat(pal, case['n']):
            for axis in (None, 0, -1):
                check_norm(acc, x, axis)
    elif kind == 'norm2d':
        for x in _lat(pal, 4):
            if x[0] != P[case['p0']]:
                continue
            for axis in (None, 0, 1, -1):
                check_norm(acc, x.reshape(2, 2), axis)
    elif kind == 'arctan2':
        n = case['n']
        for y in _lat(pal, n):
            if case['p0'] is not None and y[0] != P[case['p0']]:
                continue
            for x in _lat(pal, n):
                check_arctan2(acc, y, x, 'array')
                if n == 1:
                    check_arctan2(acc, y, x, 'pyscalar')
            if n > 1:
                for xs in _lat(pal, 1):
                    check_arctan2(acc, xs, y, 'bcast_y')      # scalar y, array x
                    check_arctan2(acc, y, xs, 'bcast_x')      # array y, scalar x
    elif kind == 'jax1arg':
        fn, mu = case['fn'], case['mu']
        kws = _act_kws(mu) if fn == 'act_tanh' else ([{}] if mu is None else [{'mu': mu}])
        for x in _lat(pal, case['n']):
            for kw in kws:
                check_jax1(acc, fn, x, kw)
                if case['n'] == 1:
                    check_jax1(acc, fn, x, kw, 'pyscalar')
        if fn == 'smooth_round' and case['n'] == 1:
            # the round function proper: quarter points between -2 and 2 (half-integers included)
            for v in np.arange(-2.0, 2.01, 0.25):
                for kw in kws:
                    check_jax1(acc, fn, np.array([v, v + 3.0]), kw)
    elif kind == 'jax2arg':
        fn, mu, n = case['fn'], case['mu'], case['n']
        kw = {} if mu is None else {'mu': mu}
        lat = _lat(pal, n)
        if case['p0'] is not None:
            if n == 2:
                lat = [x for x in lat if x[0] == P[case['p0']]]
            else:
                lat = [x for x in lat if (x[0], x[1]) == (P[case['p0'] // 5], P[case['p0'] % 5])]
        for x in lat:
            for y in _lat(pal, n):
                check_jax2(acc, fn, x, y, kw)
                if n == 1:
                    check_jax2(acc, fn, x, y, kw, 'pyscalar')
            if n == 2:
                for ys in _lat(pal, 1):
                    check_jax2(acc, fn, x, ys, kw, 'bcast_y')
    elif kind == 'jaxks':
        for x in _lat(pal, case['n']):
            check_jaxks(acc, x, case['rho'])
    # ---- single replayable cases
    elif kind == 'abs1':
        check_abs(acc, case['x'], case['form'])
    elif kind == 'norm1':
        check_norm(acc, case['x'], case['axis'])
    elif kind == 'arctan2_1':
        check_arctan2(acc, case['y'], case['x'], case['form'])
    elif kind == 'jax1':
        check_jax1(acc, case['fn'], case['x'], case['kw'], case['form'])
    elif kind == 'jax2':
        check_jax2(acc, case['fn'], case['x'], case['y'], case['kw'], case['form'])
    elif kind == 'jaxks1':
        check_jaxks(acc, case['x'], case['rho'])
    else:
        raise ValueError(kind)
    smp = {k: v for k, v in case.items()}
    smp['evals'] = acc.evals
    return acc.result(smp)
