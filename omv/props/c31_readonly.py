"""C31 - evaluations are deterministic and derivative queries are read-only (DESIGN.md 4, C31)."""
import contextlib
import io
import itertools

import numpy as np

from omv.core import ir, models

ID = 'C31'
LEVEL = 'model_checking'
TECHNIQUE = ('explicit-state search over API call histories on real Problems (fresh build per history); '
             'invariants: byte-identical model vectors across read-only calls, differential oracle '
             'against the history with the read-only calls removed (hidden-state leaks), and two '
             'independent builds for determinism')
RULE = ('9 base models (feed-forward, NLBGS+Aitken cycle, Newton+bounds line search, Broyden, '
        'approx_totals group, partial-coloring component, chain and Newton cycle of array ExecComps '
        'with force_alloc_complex, sub-group approximating its totals around a component that can be '
        'armed to abort a compute_totals with an AnalysisError) x all histories of length <= 3 (quick, third '
        'operation from a reduced alphabet) / <= 4 (thorough, reduced from the third) over {run_model, '
        'set_val x2, set_val of an output, run_driver, compute_totals, jacvec fwd, jacvec rev, check_partials fd, '
        'check_partials cs, check_totals, list_inputs, list_outputs, list_vars, total coloring}; '
        'non-trivial = history contains a read-only call followed by another call; a trace = one '
        'history on which every invariant held at every step')
LEVEL_TEXT = ('Every history in the bound is replayed on a fresh real Problem: (i) each read-only call '
              'must leave the bytes of the root input and output vectors unchanged, (ii) two '
              'fresh builds replaying the same history give bit-identical outputs, (iii) the outputs '
              'after the history followed by run_model equal those of the history with all read-only '
              'calls removed followed by run_model (catches hidden solver/cache state), (iv) the value '
              'returned by a query equals the value it returns after the projected history.')
LEVEL_NOTE = ('bounded history length and 6 models; query results compared to 1e-9 (colorings change '
              'the summation order), states compared bit-wise; output streams suppressed.')
ASSUMPTIONS = ['run_driver (default Driver), run_model and set_val are the mutating operations; every '
               'other operation in the alphabet is read-only per the property statement']
MIN_NONTRIVIAL = {'quick': 3000, 'thorough': 12000}

MUT = ('run_model', 'set_a', 'set_b', 'run_driver', 'set_out')
RO = ('totals_abort', 'totals', 'jv_fwd', 'jv_rev', 'cp_fd', 'cp_cs', 'check_totals', 'list_inputs', 'list_outputs',
      'list_vars', 'coloring')
OPS = MUT + RO[1:]                 # 'totals_abort' only exists on the 'abortfd' model
REDUCED = ('run_model', 'set_b', 'set_out', 'totals', 'jv_rev', 'cp_fd', 'check_totals', 'coloring')

MODELS = ['ff', 'nlbgs_aitken', 'newton_ls', 'broyden', 'approx', 'colorcomp', 'execcomp', 'execnewton', 'abortfd',
          'ff_scaled']


def _exec_problem(pal, cyc):
    """ExecComp model (expressions evaluated by complex step inside the vectors' own complex arrays
    when force_alloc_complex is set): a Newton-solved cycle of array-valued ExecComps + a tail"""
    import openmdao.api as om
    p = om.Problem(reports=None)
    m = p.model
    m.add_subsystem('ivc', om.IndepVarComp('p', np.array([[0.5, -1.25, 2.0], [-0.625, 0.25, 1.5],
                                                          [1.0, 0.75, -0.5]][pal])))
    G = m.add_subsystem('G', om.Group())
    one = np.ones(3)
    G.add_subsystem('c1', om.ExecComp('y = 0.5*x0 + 0.125*x1*x1 + 1.0', x0=one, x1=one, y=one))
    G.add_subsystem('c2', om.ExecComp(['y = 0.25*sin(x0) + 0.5', 'w = x0[::-1]*x0[0]'],
                                      x0=one, y=one, w=one))
    G.connect('c1.y', 'c2.x0')
    if cyc:
        G.connect('c2.y', 'c1.x1')
    m.connect('ivc.p', 'G.c1.x0')
    m.add_subsystem('c3', om.ExecComp('y = x0*x0 + 2.0*x1', x0=one, x1=one, y=one))
    m.connect('G.c2.y', 'c3.x0')
    m.connect('G.c2.w', 'c3.x1')
    if cyc:
        G.nonlinear_solver = om.NewtonSolver(solve_subsystems=False, atol=1e-13, rtol=1e-13,
                                             maxiter=30, iprint=-1, err_on_non_converge=True)
        G.linear_solver = om.DirectSolver()
    m.add_design_var('ivc.p')
    m.add_constraint('c3.y')
    m.add_constraint('G.c1.y')
    p.driver.declare_coloring(show_summary=False, show_sparsity=False)
    p.setup(force_alloc_complex=True)
    return p


def _abort_problem(pal):
    """a sub-group that approximates its totals by finite differences around a component that can
    be armed to raise an AnalysisError at its n-th evaluation (a perturbed point of the sweep)"""
    import openmdao.api as om

    class Armed(om.ExplicitComponent):
        def setup(self):
            self.add_input('x', np.ones(3))
            self.add_output('y', np.ones(3))
            self.arm = None

        def compute(self, inputs, outputs):
            if self.arm is not None:
                self.arm -= 1
                if self.arm <= 0:
                    self.arm = None
                    raise om.AnalysisError('armed evaluation')
            outputs['y'] = 2.0 * inputs['x'] + inputs['x'] ** 2

    p = om.Problem(reports=None)
    m = p.model
    m.add_subsystem('ivc', om.IndepVarComp('p', np.array([[0.5, -1.25, 2.0], [-0.625, 0.25, 1.5],
                                                          [1.0, 0.75, -0.5]][pal])))
    G = m.add_subsystem('G', om.Group())
    G.add_subsystem('comp', Armed())
    G.add_subsystem('post', om.ExecComp('w = 0.5*y + 1.0', y=np.ones(3), w=np.ones(3)))
    G.connect('comp.y', 'post.y')
    G.approx_totals(method='fd')
    m.connect('ivc.p', 'G.comp.x')
    m.add_subsystem('tail', om.ExecComp('z = 3.0*w', w=np.ones(3), z=np.ones(3)))
    m.connect('G.post.w', 'tail.w')
    m.add_design_var('ivc.p')
    m.add_constraint('tail.z')
    m.add_constraint('G.comp.y')
    p.driver.declare_coloring(show_summary=False, show_sparsity=False)
    p.setup()
    return p


def _spec(mname, pal):
    if mname == 'abortfd':
        return {'custom': mname, 'palette': pal, 'dvs': [{'name': 'ivc.p'}],
                'responses': [{'name': 'tail.z'}, {'name': 'G.comp.y'}]}
    if mname in ('execcomp', 'execnewton'):
        return {'custom': mname, 'palette': pal, 'dvs': [{'name': 'ivc.p'}],
                'responses': [{'name': 'c3.y'}, {'name': 'G.c1.y'}]}
    if mname == 'ff':
        cfg = {'topo': 'chain', 'kinds': 'allquad', 'wiring': 'conn_list', 'units': 'm_cm'}
    elif mname == 'ff_scaled':
        # solver scaling on outputs and residuals: the vectors rest in the scaled state, every
        # query that works in physical units has to come back to exactly that state
        cfg = {'topo': 'chain', 'kinds': 'allquad', 'wiring': 'conn_list', 'units': 'm_cm',
               'solver_scaling': {'c1.y': {'ref': 4.0, 'ref0': 1.0},
                                  'c2.y': {'ref': 0.5, 'res_ref': 8.0},
                                  'ivc.p': {'ref': 3.0, 'ref0': -1.0}}}
    elif mname == 'nlbgs_aitken':
        cfg = {'topo': 'cycle_tail', 'kinds': 'mix1', 'nl': 'NLBGS', 'ln': 'Direct'}
    elif mname == 'newton_ls':
        cfg = {'topo': 'cycle2', 'kinds': 'allimp', 'nl': 'Newton', 'ln': 'Direct', 'hier': 'cycG'}
    elif mname == 'broyden':
        cfg = {'topo': 'cycle_tail', 'kinds': 'mix1', 'nl': 'Broyden', 'ln': 'Direct'}
    elif mname == 'approx':
        cfg = {'topo': 'two', 'kinds': 'allquad'}
    else:
        cfg = {'topo': 'two', 'kinds': 'allquad', 'sparse': True, 'partials': 'cs'}
    cfg['palette'] = pal
    spec, why = models.spec_from_config(cfg)
    spec['force_alloc_complex'] = True
    g = spec['groups'].setdefault(spec['solver_group'], {})
    if mname == 'nlbgs_aitken':
        g['nl_opts'] = {'use_aitken': True}
    if mname == 'broyden':
        g['nl_opts'] = {'atol': 1e-10, 'rtol': 1e-10, 'maxiter': 200}
    if mname == 'approx':
        spec['groups'].setdefault('', {})['approx'] = {'method': 'fd', 'form': 'central'}
    if mname == 'colorcomp':
        c1 = [c for c in spec['comps'] if c['name'] == 'c1'][0]
        c1['coloring'] = dict(wrt='*', method='cs', show_summary=False, show_sparsity=False,
                              num_full_jacs=2)
    if mname == 'newton_ls':
        for c in spec['comps']:
            for o in c['outputs']:
                o['lower'] = -50.0
                o['upper'] = 50.0
    return spec


def cases(tier, seed):
    out = []
    for m in MODELS:
        for first in OPS + (('totals_abort',) if m == 'abortfd' else ()):
            out.append({'model': m, 'first': first, 'tier': tier, 'palette': seed % 3})
    return out


def _build(spec, mname):
    import openmdao.api as om
    buf = io.StringIO()

    def before(prob, groups, insts):
        if mname == 'newton_ls':
            g = groups[spec['solver_group']]
            g.nonlinear_solver.linesearch = om.BoundsEnforceLS(bound_enforcement='scalar')
        prob.driver.declare_coloring(show_summary=False, show_sparsity=False)
    with contextlib.redirect_stdout(buf), contextlib.redirect_stderr(buf):
        np.random.seed(3)
        # OpenMDAO draws the perturbations of its sparsity sweeps from its own module-level
        # generator: own that source of randomness too
        import openmdao.utils.array_utils as _au
        if hasattr(_au, '_randgen'):
            _au._randgen = np.random.default_rng(3)
        if spec.get('custom') == 'abortfd':
            prob = _abort_problem(spec['palette'])
        elif spec.get('custom'):
            prob = _exec_problem(spec['palette'], spec['custom'] == 'execnewton')
        else:
            prob, info = ir.build(spec, mode='rev' if mname in ('nlbgs_aitken', 'broyden') else None,
                                  before_setup=before)
        prob.run_model()
    return prob


def _state(prob):
    m = prob.model     # the statement speaks of inputs and outputs (residuals are scratch space)
    return (m._inputs.asarray().tobytes(), m._outputs.asarray().tobytes())


def _flatten(res):
    """canonical numeric content of a query result"""
    out = []

    def rec(o):
        if isinstance(o, dict):
            for k in sorted(o, key=repr):
                if k in ('steps', 'directional_fd_fwd', 'directional_fd_rev', 'tol violation',
                         'vals_at_max_error', 'vals_at_max_abs', 'vals_at_max_rel', 'denom_idx'):
                    continue
                rec(o[k])
        elif isinstance(o, (list, tuple)):
            for x in o:
                rec(x)
        elif isinstance(o, np.ndarray):
            out.extend(np.asarray(o, dtype=float).ravel().tolist())
        elif isinstance(o, (int, float, np.floating, np.integer)) and not isinstance(o, bool):
            out.append(float(o))
    rec(res)
    return np.asarray(out, dtype=float)


def _apply(prob, spec, op):
    """returns query result (or None for mutating ops)"""
    import openmdao.utils.coloring as cmod
    buf = io.StringIO()
    ref_p = [d for d in spec['dvs']][0]
    of = [r['name'] for r in spec['responses']]
    wrt = [d['name'] for d in spec['dvs']]
    with contextlib.redirect_stdout(buf), contextlib.redirect_stderr(buf):
        if op == 'run_model':
            prob.run_model()
        elif op in ('set_a', 'set_b'):
            v0 = np.asarray(prob.get_val(ref_p['name'])).copy()
            k = 1.0 if op == 'set_a' else -0.5
            base = np.arange(v0.size).reshape(v0.shape)
            prob.set_val(ref_p['name'], 0.25 * k * base + 0.5 * k)
        elif op == 'set_out':
            # an output set by hand (initial guess / inconsistent state): queries linearize about
            # the current state and must leave it alone
            name = spec['responses'][-1]['name']
            v0 = np.asarray(prob.get_val(name))
            prob.set_val(name, 0.375 + 0.125 * np.arange(v0.size).reshape(v0.shape))
        elif op == 'run_driver':
            prob.run_driver()
        elif op == 'totals':
            return prob.compute_totals(of=of, wrt=wrt, return_format='flat_dict')
        elif op == 'totals_abort':
            # a compute_totals aborted by an AnalysisError raised at the 2nd perturbed evaluation
            import openmdao.api as om
            comp = prob.model.G.comp
            comp.arm = 3
            try:
                prob.compute_totals(of=of, wrt=wrt, return_format='flat_dict')
            except om.AnalysisError:
                pass
            finally:
                comp.arm = None
            return None
        elif op in ('jv_fwd', 'jv_rev') and spec.get('custom'):
            names, mode = (wrt, 'fwd') if op == 'jv_fwd' else (of, 'rev')
            seed = {n: 0.5 + np.arange(np.size(prob.get_val(n))).reshape(np.shape(prob.get_val(n)))
                    for n in names}
            return prob.compute_jacvec_product(of, wrt, mode, seed, linearize=True)
        elif op in ('jv_fwd', 'jv_rev'):
            tab = ir.var_table(spec)
            if op == 'jv_fwd':
                seed = {d['name']: 0.5 + np.arange(ir.size_of(tab[d['_ref']]['shape'])).reshape(
                    tab[d['_ref']]['shape']) for d in spec['dvs']}
                return prob.compute_jacvec_product(of, wrt, 'fwd', seed, linearize=True)
            seed = {r['name']: 0.5 + np.arange(ir.size_of(tab[r['_ref']]['shape'])).reshape(
                tab[r['_ref']]['shape']) for r in spec['responses']}
            return prob.compute_jacvec_product(of, wrt, 'rev', seed, linearize=True)
        elif op == 'cp_fd':
            return prob.check_partials(out_stream=None, method='fd')
        elif op == 'cp_cs':
            return prob.check_partials(out_stream=None, method='cs')
        elif op == 'check_totals':
            res = prob.check_totals(of=of, wrt=wrt, out_stream=None, method='fd', form='forward',
                                    step=1e-5)
            # the finite-difference side re-runs the solvers and is only reproducible to the solver
            # tolerance divided by the step; the analytic side must not depend on earlier queries
            return {k: {kk: vv for kk, vv in v.items() if kk in ('J_fwd', 'J_rev')}
                    for k, v in res.items()}
        elif op == 'list_inputs':
            return [(n, np.asarray(m['val']).copy()) for n, m in prob.model.list_inputs(
                out_stream=None)]
        elif op == 'list_outputs':
            return [(n, np.asarray(m['val']).copy()) for n, m in prob.model.list_outputs(
                out_stream=None, residuals=True)]
        elif op == 'list_vars':
            return [(n, np.asarray(m['val']).copy()) for n, m in prob.model.list_vars(
                out_stream=None)]
        elif op == 'coloring':
            np.random.seed(5)
            col = cmod.dynamic_total_coloring(prob.driver, run_model=False)
            return None if col is None else [col.total_solves()]
    return None


_CACHE = {}
# finite-difference check_partials results after an iterative solve: two converged states differ
# within the solver tolerance (Broyden's depends on its own history) and the difference is
# amplified by 1/step
_QTOL = {('cp_fd', m): 1e-3 for m in ('broyden', 'nlbgs_aitken', 'newton_ls', 'execnewton')}


def _replay(spec, mname, hist):
    """returns dict: per-step (state after, result), final outputs after an extra run_model"""
    try:
        prob = _build(spec, mname)
    except Exception as exc:
        if type(exc).__name__ == 'AnalysisError':
            return None, [], None
        raise
    steps = []
    vio = []
    for k, op in enumerate(hist):
        before = _state(prob)
        try:
            res = _apply(prob, spec, op)
        except Exception as exc:
            if type(exc).__name__ == 'AnalysisError':
                return None, vio, None
            if 'same method and options' in str(exc):
                # documented refusal: a check with the method that computes the derivatives
                steps.append((_state(prob), None))
                continue
            vio.append(('raises:%s' % op, 'step %d (%s) raised %s: %s' % (k, op, type(exc).__name__,
                                                                         str(exc)[:300])))
            return None, vio, None
        after = _state(prob)
        if op in RO and after != before:
            which = [n for n, a, b in zip(('inputs', 'outputs'), before, after)
                     if a != b]
            # a change of at most 2 units in the last place is classed separately (the arithmetic
            # way ExplicitComponent._apply_nonlinear puts the outputs back: new + (old - new))
            tiny = True
            for a, b in zip(before, after):
                x, y = np.frombuffer(a), np.frombuffer(b)
                if x.shape != y.shape or np.any(np.abs(x - y) > 4.5e-16 * np.maximum(1.0, np.abs(x))):
                    tiny = False
            vio.append(('%s:%s:%s' % ('state_changed_ulp' if tiny else 'state_changed', op,
                                      '+'.join(which)),
                        'read-only call %s at step %d changed the root %s vector(s)' % (
                            op, k, '/'.join(which))))
        steps.append((after, None if res is None else _flatten(res)))
    buf = io.StringIO()
    try:
        with contextlib.redirect_stdout(buf), contextlib.redirect_stderr(buf):
            prob.run_model()
    except Exception as exc:
        if type(exc).__name__ == 'AnalysisError':
            return None, vio, None
        vio.append(('final_run_raises', '%s: %s' % (type(exc).__name__, str(exc)[:200])))
        return None, vio, None
    final = prob.model._outputs.asarray().copy()
    return steps, vio, final


def _proj(hist):
    return tuple(o for o in hist if o in MUT)


def check_case(case):
    mname = case['model']
    spec = _spec(mname, case.get('palette', 0))
    if 'hist' in case:
        hists = [tuple(case['hist'])]
    else:
        first = case['first']
        maxlen = 3 if case['tier'] == 'quick' else 4
        hists = [(first,)]
        ops, red = OPS, REDUCED
        if mname == 'abortfd':
            ops, red = OPS + ('totals_abort',), REDUCED + ('totals_abort',)
        for ln in range(2, maxlen + 1):
            for tail in itertools.product(*[ops if (j == 0 and ln == 2) or (j == 0) else red
                                            for j in range(ln - 1)]):
                hists.append((first,) + tail)
    import collections
    outcomes = collections.Counter()
    vios = []
    sigs = collections.Counter()
    evals = nontriv = traces = 0
    seen_states = set()
    for hist in hists:
        steps, vio, final = _replay(spec, mname, hist)
        evals += 1
        cls = '>'.join(hist)

        def add(what, msg):
            sig = 'C31:%s:%s' % (what, mname)
            sigs[sig] += 1
            if sigs[sig] <= 2:
                vios.append({'sig': sig, 'msg': '%s model=%s history=[%s]: %s' % (what, mname, cls,
                                                                                   msg),
                             'case': {'model': mname, 'hist': list(hist),
                                      'palette': case.get('palette', 0)}})
        for what, msg in vio:
            add(what, msg)
        if steps is None:
            outcomes['violation' if vio else 'not_converged'] += 1
            continue
        # differential oracle against the projected history (read-only calls removed)
        pj = _proj(hist)
        key = (mname, case.get('palette', 0), pj)
        if key not in _CACHE:
            _CACHE[key] = _replay(spec, mname, pj)
        psteps, pvio, pfinal = _CACHE[key]
        if pfinal is not None:
            if final.shape != pfinal.shape or not np.array_equal(final, pfinal):
                err = float(np.max(np.abs(final - pfinal))) if final.shape == pfinal.shape else -1
                # iterative solvers: identical up to the solver tolerance is still required to be
                # independent of read-only calls; report bitwise differences above 1e-12
                if err < 0 or err > 1e-12 * max(1.0, float(np.max(np.abs(pfinal)))):
                    add('outputs_depend_on_readonly_calls', 'outputs after the history + run_model '
                        'differ from the projected history %s by %.3e' % (list(pj), err))
                else:
                    outcomes['bitwise_diff_below_1e-12'] += 1
        # query results must not depend on preceding read-only calls
        for k, op in enumerate(hist):
            if op in RO and steps[k][1] is not None and any(o in RO for o in hist[:k]):
                base_hist = _proj(hist[:k]) + (op,)
                bkey = (mname, case.get('palette', 0), base_hist)
                if bkey not in _CACHE:
                    _CACHE[bkey] = _replay(spec, mname, base_hist)
                bsteps = _CACHE[bkey][0]
                if bsteps is None:
                    continue
                want = bsteps[-1][1]
                got = steps[k][1]
                if want is None or got.shape != want.shape:
                    add('query_result_shape:%s' % op, 'result layout differs from the same query '
                        'after %s' % (list(base_hist[:-1]),))
                elif not np.allclose(got, want, rtol=_QTOL.get((op, mname), 1e-7),
                                     atol=_QTOL.get((op, mname), 1e-9), equal_nan=True):
                    add('query_depends_on_readonly_calls:%s' % op, 'max diff %.3e vs. the same '
                        'query after %s' % (float(np.nanmax(np.abs(got - want))),
                                           list(base_hist[:-1])))
        # determinism: an independent second build replaying the same history (a sample: the
        # histories that end in a mutating operation)
        if hist[-1] in MUT and len(hist) <= 2:
            s2, v2, f2 = _replay(spec, mname, hist)
            evals += 1
            if f2 is None or not np.array_equal(f2, final):
                add('not_deterministic', 'two fresh builds replaying the same history gave '
                    'different outputs')
        if len(_CACHE) > 4000:
            _CACHE.clear()
        if not vio:
            traces += 1
        seen_states.add(hash(steps[-1][0]))
        nontriv += int(any(o in RO for o in hist[:-1]))
        outcomes['ok' if not vio else 'violation'] += 1
    return {'evals': evals, 'nontrivial': nontriv, 'outcome': dict(outcomes), 'violations': vios,
            'counters': {'states': len(seen_states), 'transitions': evals, 'traces': traces},
            'sample': {'model': mname, 'first': case.get('first'), 'histories': len(hists)}}
