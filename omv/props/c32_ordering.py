"""C32 - feed-forward models are fully solved by one ordered pass (DESIGN.md section 4, C32).

Two exhaustive enumerations against oracles written from the definitions:

graph level  every digraph on <= 4 labelled nodes x every node insertion order (= `orders`) x two
             edge insertion orders: `get_sccs_topo` must return the strongly connected components
             (computed here from the transitive closure) in a topological order of the condensation,
             `get_out_of_order_nodes` must return exactly the edges between different components
             whose source is ordered after its target.
model level  every labelled DAG on <= 4 components and every cyclic digraph on 3 components, built
             from linear ExplicitComponents with a probe in `compute`, subsystems added in every
             permutation, `auto_order=True` on every group, default run-once solvers, flat / all in
             one subgroup / split between a subgroup and the top level.  After one run_model: for
             every group whose child graph is acyclic each child runs after all children it reads
             from; if every group is acyclic every output equals the value of an independent forward
             evaluation and the residual of every component is zero; children inside a cycle keep
             their declared relative order.
"""
import collections
import functools
import itertools

import numpy as np

ID = 'C32'
LEVEL = 'exploration'
TECHNIQUE = ('exhaustive enumeration of all small digraphs x insertion orders against definitions '
             '(SCC by transitive closure, topological order of the condensation, out-of-order edges); '
             'all labelled DAGs / cyclic 3-node digraphs built as real models in every add order '
             'with an execution-trace probe and an independent forward evaluation')
RULE = ('graph level: (digraph on n<=4 nodes, node insertion order, edge insertion order), '
        'non-trivial = at least one out-of-order edge or an SCC with >1 node; model level: (digraph, '
        'add-order permutation, nesting), non-trivial = the add order is not already a valid '
        'execution order: some group has a connection between different strongly connected '
        'components whose source was added after its target (auto ordering has to act); each tuple '
        'enumerated once')
LEVEL_TEXT = ('All digraphs on <= 4 nodes in every insertion order are checked against the '
              'definitions, and every labelled DAG on <= 4 components (and every cyclic 3-node '
              'digraph) is built as a real model in every add order and run once; ordering defects '
              'are combinations of graph shape and declaration order, all of which occur at this '
              'size.')
LEVEL_NOTE = ('Reference = transitive closure / forward evaluation written here; models larger than '
              '4 components, deeper nesting than one level, promotion-based connections, implicit '
              'components and MPI are not covered.')
ASSUMPTIONS = [
    'Problem option allow_post_setup_reorder keeps its default (True); auto_order=True on every group',
    'a group is "acyclic" when the graph between its direct children is acyclic; the execution-order '
    'and zero-residual demands are made for acyclic groups only, the keep-declared-order demand for '
    'children in the same strongly connected component; nothing is demanded about the position of '
    'a cycle relative to feed-forward parts at model level (the statement is silent) - that is '
    'covered at graph level for get_sccs_topo only',
    'values from dyadic palettes (4 palettes selected by seed), comparison tolerance 1e-12',
    'quick tier: model-level 4-node DAGs on 6 of the 24 add orders (selected by seed), nesting on a '
    'subset; thorough tier: everything',
]
MIN_NONTRIVIAL = {'quick': 100000, 'thorough': 110000}
CAP_S = {'thorough': 1500}      # guard for a shared machine; a capped run reports exhaustive=false
CHUNK = 1


# --------------------------------------------------------------------------- enumeration helpers

def _pairs(n):
    return [(i, j) for i in range(n) for j in range(n) if i != j]


def _edges(n, mask):
    return [p for k, p in enumerate(_pairs(n)) if mask >> k & 1]


def _closure(n, edges):
    r = [[i == j for j in range(n)] for i in range(n)]
    for i, j in edges:
        r[i][j] = True
    for k in range(n):
        for i in range(n):
            if r[i][k]:
                for j in range(n):
                    if r[k][j]:
                        r[i][j] = True
    return r


def _sccs(n, edges):
    """SCCs from the definition (mutual reachability); returns list of frozensets and node->index"""
    return _sccs_cached(n, tuple(edges))


@functools.lru_cache(maxsize=8192)
def _sccs_cached(n, edges):
    r = _closure(n, edges)
    comp = {}
    out = []
    for i in range(n):
        if i in comp:
            continue
        s = frozenset(j for j in range(n) if r[i][j] and r[j][i])
        for j in s:
            comp[j] = len(out)
        out.append(s)
    return out, comp


def _is_dag(n, edges):
    return len(_sccs(n, edges)[0]) == n


def _dag_masks(n):
    return [m for m in range(1 << len(_pairs(n))) if _is_dag(n, _edges(n, m))]


def _cyclic_masks(n):
    return [m for m in range(1 << len(_pairs(n))) if not _is_dag(n, _edges(n, m))]


def cases(tier, seed):
    out = []
    for n in (1, 2, 3):
        out.append({'kind': 'graph', 'n': n, 'lo': 0, 'hi': 1 << len(_pairs(n))})
    step = 256
    for lo in range(0, 4096, step):
        out.append({'kind': 'graph', 'n': 4, 'lo': lo, 'hi': lo + step})
    pal = seed % 4
    # model level
    for n in (1, 2, 3):
        masks = _dag_masks(n)
        for nest in (0, 1, 2):
            if nest == 2 and n < 3:
                continue
            out.append({'kind': 'models', 'n': n, 'masks': masks, 'perms': None, 'nest': nest,
                        'pal': pal})
    cyc = _cyclic_masks(3)
    for nest in (0, 1, 2):
        out.append({'kind': 'models', 'n': 3, 'masks': cyc, 'perms': None, 'nest': nest, 'pal': pal})
    out.append({'kind': 'models', 'n': 2, 'masks': _cyclic_masks(2), 'perms': None, 'nest': 0,
                'pal': pal})
    dags4 = _dag_masks(4)
    if tier == 'quick':
        allp = list(range(24))
        k = seed % 4
        perms = allp[k::4]                      # 6 of the 24 add orders
        nests = {0: dags4, 1: dags4[seed % 3::3], 2: dags4[(seed + 1) % 3::3]}
    else:
        perms = None
        nests = {0: dags4, 1: dags4, 2: dags4}
    chunk = 12 if tier == 'quick' else 6
    for nest, masks in nests.items():
        for i in range(0, len(masks), chunk):
            out.append({'kind': 'models', 'n': 4, 'masks': masks[i:i + chunk], 'perms': perms,
                        'nest': nest, 'pal': pal})
    if tier == 'thorough':
        # cyclic 4-node digraphs with exactly one 2-cycle or 3-cycle plus a tail (a subset that
        # keeps the cost bounded: every 4-node digraph with <= 4 edges that has a cycle)
        cyc4 = [m for m in _cyclic_masks(4) if bin(m).count('1') <= 4]
        for i in range(0, len(cyc4), 8):
            out.append({'kind': 'models', 'n': 4, 'masks': cyc4[i:i + 8], 'perms': None, 'nest': 0,
                        'pal': pal})
    return out


# --------------------------------------------------------------------------- graph level

def _gclass(n, edges):
    sccs, _ = _sccs(n, edges)
    big = sorted((len(s) for s in sccs if len(s) > 1), reverse=True)
    return '%dnodes/%s' % (n, 'dag' if not big else 'scc' + '+'.join(map(str, big)))


def check_graph1(n, mask, perm, erev):
    """One digraph, one node insertion order, one edge insertion order."""
    import networkx as nx
    from openmdao.utils.graph_utils import get_sccs_topo, get_out_of_order_nodes
    edges = _edges(n, mask)
    names = ['s%d' % i for i in range(n)]
    G = nx.DiGraph()
    G.add_nodes_from(names[i] for i in perm)
    orders = {names[i]: k for k, i in enumerate(perm)}
    pos = {i: k for k, i in enumerate(perm)}
    es = sorted(edges, key=lambda e: (pos[e[0]], pos[e[1]]), reverse=bool(erev))
    G.add_edges_from((names[i], names[j]) for i, j in es)
    case = {'kind': 'graph1', 'n': n, 'mask': mask, 'perm': list(perm), 'erev': erev}
    cls = _gclass(n, edges)
    vio = []

    def V(what, msg):
        vio.append({'sig': 'C32:%s:%s' % (what, cls), 'case': case,
                    'msg': 'edges=%s insertion order=%s: %s' % (edges, list(perm), msg)})

    ref_sccs, comp = _sccs(n, edges)
    want_ooo = sorted((names[i], names[j]) for i, j in edges
                      if comp[i] != comp[j] and pos[i] > pos[j])
    try:
        topo = get_sccs_topo(G)
        sc2, ooo = get_out_of_order_nodes(G, orders)
    except Exception as exc:
        V('graph_raises', '%s: %s' % (type(exc).__name__, exc))
        return 'violation', 0, vio
    for what, lst in (('get_sccs_topo', topo), ('get_out_of_order_nodes[0]', sc2)):
        got = [frozenset(int(x[1:]) for x in s) for s in lst]
        if sorted(map(sorted, got)) != sorted(map(sorted, ref_sccs)):
            V('sccs_wrong', '%s returned %s, SCCs by definition %s' % (
                what, [sorted(s) for s in got], [sorted(s) for s in ref_sccs]))
            continue
        idx = {}
        for k, s in enumerate(got):
            for i in s:
                idx[i] = k
        bad = [(i, j) for i, j in edges if idx[i] > idx[j]]
        if bad:
            V('sccs_not_topological', '%s returned %s: edges %s go backwards' % (
                what, [sorted(s) for s in got], bad))
    if sorted(map(tuple, ooo)) != want_ooo:
        V('out_of_order_edges', 'got %s, by definition %s' % (sorted(map(tuple, ooo)), want_ooo))
    nontriv = int(bool(want_ooo) or len(ref_sccs) < n)
    if vio:
        return 'violation', 0, vio
    oc = 'graph:%s:%s' % ('dag' if len(ref_sccs) == n else 'cyclic',
                          'out_of_order' if want_ooo else 'in_order')
    return oc, nontriv, vio


# --------------------------------------------------------------------------- model level

_C = [[0.5, -1.5, 3.0, 0.25], [-0.75, 2.0, 0.125, -3.5], [1.5, 0.375, -2.5, 4.0],
      [-0.25, 5.0, 1.75, -1.125]]
_A = [[2.0, -0.5, 4.0, 1.5], [0.5, 3.0, -2.0, 0.25], [-4.0, 1.25, 0.75, 2.5],
      [1.5, -0.25, 2.0, -3.0]]
_U = [[1.25, -0.75, 2.5, 0.375], [0.5, 1.75, -1.25, 3.0], [-2.0, 0.625, 1.5, -0.5],
      [2.25, -1.5, 0.75, 1.0]]
_W = [[[0, 0.5, -2.0, 1.5], [0.75, 0, 2.5, -0.5], [-1.25, 3.0, 0, 0.25], [2.0, -0.375, 1.75, 0]],
      [[0, -1.5, 0.25, 2.0], [3.0, 0, -0.75, 1.25], [0.5, -2.5, 0, 1.75], [-0.625, 1.5, 2.25, 0]],
      [[0, 2.5, 1.25, -0.75], [-2.0, 0, 0.375, 3.0], [1.75, 0.5, 0, -1.5], [0.25, -3.5, 0.625, 0]],
      [[0, 0.25, -3.0, 0.5], [1.5, 0, -1.25, 2.0], [-0.5, 0.75, 0, 2.5], [3.5, 1.125, -0.25, 0]]]


def _tree(n, perm, nest):
    """Declared structure: list of top-level children in add order; a child is ('c', i) or
    ('g', [members in add order])."""
    if nest == 0:
        return [('c', i) for i in perm]
    if nest == 1:
        return [('g', list(perm))]
    members = [i for i in perm if i < 2]
    top = []
    done = False
    for i in perm:
        if i < 2:
            if not done:
                top.append(('g', members))
                done = True
        else:
            top.append(('c', i))
    return top


def _child_graph(children, edges):
    """children: list of (name, set of comp labels).  Returns edges between children indices."""
    owner = {}
    for k, (_, mem) in enumerate(children):
        for i in mem:
            owner[i] = k
    ce = set()
    for i, j in edges:
        if owner[i] != owner[j]:
            ce.add((owner[i], owner[j]))
    return sorted(ce)


def check_model1(n, mask, perm, nest, pal, hist='once'):
    import openmdao.api as om
    edges = _edges(n, mask)
    preds = {i: [a for a, b in edges if b == i] for i in range(n)}
    C, A, U, W = _C[pal], _A[pal], _U[pal], _W[pal]
    trace = []

    class Lin(om.ExplicitComponent):
        def __init__(self, idx):
            super().__init__()
            self.idx = idx

        def setup(self):
            i = self.idx
            if not preds[i]:
                self.add_input('u', 0.0)
            for j in preds[i]:
                self.add_input('x%d' % j, 0.0)
            self.add_output('y', 0.0)

        def compute(self, inputs, outputs):
            i = self.idx
            trace.append(i)
            y = C[i]
            if not preds[i]:
                y = y + A[i] * inputs['u']
            for j in preds[i]:
                y = y + W[i][j] * inputs['x%d' % j]
            outputs['y'] = y

    tree = _tree(n, perm, nest)
    case = {'kind': 'model1', 'n': n, 'mask': mask, 'perm': list(perm), 'nest': nest, 'pal': pal,
            'hist': hist}
    cls = '%s/nest%d%s' % (_gclass(n, edges), nest, '' if hist == 'once' else '/' + hist)
    vio = []

    def V(what, msg):
        vio.append({'sig': 'C32:%s:%s' % (what, cls), 'case': case,
                    'msg': 'edges=%s add order=%s nest=%d: %s' % (edges, tree, nest, msg)})

    path = {}
    # (om.Group(auto_order=True) is not accepted: the option is declared after the constructor
    # keywords are processed; the option is set the way the test-suite does)
    prob = om.Problem(reports=None)
    prob.model.options['auto_order'] = True
    for kind, x in tree:
        if kind == 'c':
            prob.model.add_subsystem('c%d' % x, Lin(x))
            path[x] = 'c%d' % x
        else:
            g = prob.model.add_subsystem('g', om.Group())
            g.options['auto_order'] = True
            for i in x:
                g.add_subsystem('c%d' % i, Lin(i))
                path[i] = 'g.c%d' % i
    # histories: 'once' = one setup; 'twice' = setup, run, setup again; 'grow' = only the first
    # edge is connected for a first setup and run, the others are connected before the second setup
    first_edges = edges[:1] if hist == 'grow' else edges
    for i, j in first_edges:
        prob.model.connect(path[i] + '.y', path[j] + '.x%d' % i)
    try:
        if hist != 'once':
            prob.setup()
            for i in range(n):
                if not preds[i]:
                    prob.set_val(path[i] + '.u', U[i])
            prob.run_model()
            for i, j in edges[len(first_edges):]:
                prob.model.connect(path[i] + '.y', path[j] + '.x%d' % i)
        prob.setup()
        for i in range(n):
            if not preds[i]:
                prob.set_val(path[i] + '.u', U[i])
        prob.final_setup()
        del trace[:]
        prob.run_model()
        vals = [float(np.asarray(prob.get_val(path[i] + '.y')).ravel()[0]) for i in range(n)]
    except Exception as exc:
        V('model_raises', '%s: %s' % (type(exc).__name__, str(exc)[:300]))
        return 'violation', 0, vio
    finally:
        try:
            prob.cleanup()
        except Exception:
            pass

    first = {}
    for k, i in enumerate(trace):
        first.setdefault(i, k)
    missing = [i for i in range(n) if i not in first]
    if missing:
        V('component_not_executed', 'components %s never ran; trace %s' % (missing, trace))
        return 'violation', 0, vio

    # groups: (label, children as (name, members) in declared order)
    groups = [('top', [(('c%d' % x), {x}) if kind == 'c' else ('g', set(x)) for kind, x in tree])]
    for kind, x in tree:
        if kind == 'g':
            groups.append(('g', [('c%d' % i, {i}) for i in x]))
    all_acyclic = True
    moved = False
    cyc_nontrivial = False
    for gname, children in groups:
        m = len(children)
        ce = _child_graph(children, [(i, j) for i, j in edges
                                     if any(i in mem for _, mem in children) and
                                     any(j in mem for _, mem in children)])
        sccs, comp = _sccs(m, ce)
        acyclic = len(sccs) == m
        all_acyclic = all_acyclic and acyclic
        # execution position of a child = first execution of any of its components
        epos = [min(first[i] for i in mem) for _, mem in children]
        for a, b in ce:
            if comp[a] != comp[b] and a > b:
                moved = True            # an out-of-order connection: auto ordering has to act
                if not acyclic:
                    cyc_nontrivial = True
        if acyclic:
            for a, b in ce:
                if epos[a] > epos[b]:
                    V('predecessor_runs_after_successor',
                      'in group %s child %s (reads from %s) ran first; trace %s' % (
                          gname, children[b][0], children[a][0], trace))
        for s in sccs:
            if len(s) > 1:
                decl = sorted(s)                        # declared relative order (children are
                ran = sorted(s, key=lambda k: epos[k])   # listed in add order)
                if decl != ran:
                    V('cycle_order_changed', 'in group %s the cycle members were declared as %s '
                      'but ran as %s' % (gname, [children[k][0] for k in decl],
                                         [children[k][0] for k in ran]))
    if all_acyclic and not vio:     # (an ordering violation already explains wrong values)
        # independent forward evaluation in label-topological order
        ref = {}
        left = set(range(n))
        while left:
            for i in sorted(left):
                if all(j in ref for j in preds[i]):
                    y = C[i]
                    if not preds[i]:
                        y += A[i] * U[i]
                    for j in preds[i]:
                        y += W[i][j] * ref[j]
                    ref[i] = y
                    left.discard(i)
                    break
        for i in range(n):
            res = vals[i] - (C[i] + (A[i] * U[i] if not preds[i] else 0.0) +
                             sum(W[i][j] * vals[j] for j in preds[i]))
            if abs(res) > 1e-12 * max(1.0, abs(vals[i])):
                V('residual_nonzero', 'residual of c%d after one run_model is %r (values %s, '
                  'trace %s)' % (i, res, vals, trace))
                break
            if abs(vals[i] - ref[i]) > 1e-12 * max(1.0, abs(ref[i])):
                V('value_wrong', 'c%d.y = %r, forward evaluation gives %r' % (i, vals[i], ref[i]))
                break
    if vio:
        return 'violation', 0, vio
    oc = 'model:%s:%s:nest%d' % ('acyclic' if all_acyclic else 'cyclic_group',
                                 'reorder_needed' if moved else 'in_order', nest)
    return oc, int(moved), vio


def check_case(case):
    kind = case['kind']
    if kind == 'graph1':
        oc, nt, vio = check_graph1(case['n'], case['mask'], tuple(case['perm']), case['erev'])
        return {'evals': 1, 'nontrivial': nt, 'outcome': oc, 'violations': vio}
    if kind == 'model1':
        oc, nt, vio = check_model1(case['n'], case['mask'], tuple(case['perm']), case['nest'],
                                   case['pal'], case.get('hist', 'once'))
        return {'evals': 1, 'nontrivial': nt, 'outcome': oc, 'violations': vio}

    outcomes = collections.Counter()
    evals = nontriv = 0
    vios = []
    persig = collections.Counter()

    def add(oc, nt, vio):
        nonlocal evals, nontriv
        evals += 1
        nontriv += nt
        outcomes[oc] += 1
        for v in vio:
            persig[v['sig']] += 1
            if persig[v['sig']] <= 2:
                vios.append(v)

    n = case['n']
    perms = list(itertools.permutations(range(n)))
    if kind == 'graph':
        for mask in range(case['lo'], case['hi']):
            for perm in perms:
                for erev in (0, 1):
                    add(*check_graph1(n, mask, perm, erev))
        sample = dict(case, perms=len(perms), edge_orders=2)
    elif kind == 'models':
        sel = perms if case['perms'] is None else [perms[k] for k in case['perms'] if k < len(perms)]
        seen = set()
        for mask in case['masks']:
            for perm in sel:
                key = (mask, repr(_tree(n, perm, case['nest'])))
                if key in seen:
                    continue
                seen.add(key)
                add(*check_model1(n, mask, perm, case['nest'], case['pal']))
                # the same model set up a second time (as is, and after more connections)
                add(*check_model1(n, mask, perm, case['nest'], case['pal'], 'twice'))
                if len(_edges(n, mask)) > 1:
                    add(*check_model1(n, mask, perm, case['nest'], case['pal'], 'grow'))
        sample = {'kind': 'models', 'n': n, 'nest': case['nest'], 'graphs': len(case['masks']),
                  'first_edges': _edges(n, case['masks'][0]) if case['masks'] else None,
                  'add_orders': len(sel)}
    else:
        raise ValueError(kind)
    return {'evals': evals, 'nontrivial': nontriv, 'outcome': dict(outcomes), 'violations': vios,
            'sample': sample}
