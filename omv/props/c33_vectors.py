"""C33 - vector arithmetic and scaling round-trips match NumPy (DESIGN.md section 4, C33).

Explicit-state search (engine E2) over operation histories on the six root vectors (and the
sub-vectors of the subsystems) of a small real model, mirrored by plain NumPy arrays in lock-step.

Model (built once per worker process and rebuilt by the two 'static' cases; the state of a vector
is its data array plus the complex-step flag and the matvec scope, so "fresh object per history"
is realised by resetting every root data array to a generic start pattern; the static cases replay
sample histories on brand-new models and compare with the reset model):

    g1.ca : inputs  x () [m, auto-ivc]            w (2,2) <- g2.cb.m (scaled source, no units)
            outputs s (1,) m  ref 0.5 ref0 4 (negative scale) res_ref 8
                    v (3,) m  array ref/ref0/res_ref         tc () degC ref 2 ref0 -2 res_ref .5
    g2.cd : outputs u (2,) m  (unscaled)
    g2.cb : inputs  p (3,) cm <- g1.ca.v (factor + array scaling)   t () degF <- g1.ca.tc (offset)
                    z (1,) km <- g1.ca.s                             y (2,) cm <- g2.cd.u (units only)
            outputs m (2,2) array ref, scalar ref0, res_ref 4        r (2,) unscaled

The mirror's layout is *discovered* through the public API (write by name, read flat) and checked
to be a partition into contiguous C-ordered blocks; the scaling arrays of the mirror come from the
declared ref/ref0/res_ref and textbook unit conversions.
"""
import collections

import numpy as np

ID = 'C33'
LEVEL = 'model_checking'
TECHNIQUE = ('explicit-state breadth-first search over vector operation histories on the root and '
             'sub-vectors of a real scaled model, NumPy mirror arrays in lock-step, state hashing on '
             'the mirror data')
RULE = ('one case = (focus vector, operation alphabet, first operation); all histories up to the '
        'depth bound over that alphabet (arithmetic / named access / sub-vector and alias writes / '
        'scaling and scaling contexts / complex step / matvec scope / cross-vector), pruned by the '
        'hash of the six mirror arrays + flags; non-trivial transition = an operation that changes '
        'the data of at least one vector (not a no-op, not an observer); distinct = distinct states')
LEVEL_TEXT = ('Every history up to the bound over the stated operation alphabets is executed on the '
              'real DefaultVector objects of a model whose layout has scalar, 1-D and 2-D variables '
              'in two subgroups, all branches of _set_scaling populated, and compared after every '
              'step with NumPy mirror arrays through every access path (flat array, named views, '
              'sub-vectors, local views, norms and dot products).')
LEVEL_NOTE = ('NumPy is the reference for arithmetic and indexing; scaling factors of the mirror come '
              'from the declared ref/ref0/res_ref and textbook conversions (cm = 100 m, km = m/1000, '
              'degF = 1.8 degC + 32); one model layout; no MPI / PETSc vectors.')
ASSUMPTIONS = [
    'the layout (order of variables in the flat array) is not prescribed: it is discovered by '
    'writing each variable by name and reading the flat array, then checked to be a partition '
    'into contiguous C-ordered blocks that agrees with get_range()/ranges()',
    'scaling reference: outputs x_phys = ref0 + (ref-ref0) x_norm; residuals r_phys = res_ref '
    'r_norm; inputs x_phys(target units) = g(ref0_src) + g\'(.)(ref_src-ref0_src) x_norm with g the '
    'unit conversion; linear vectors use the multiplicative part only; mode rev is exercised only '
    'on the linear input vector (the only use in the code base): to_norm multiplies by '
    'g\'/(ref_src-ref0_src)',
    'comparison tolerance 1e-12 relative to the largest magnitude in the vector (scaling factors '
    'such as 1.8 are not dyadic); the round trip norm->phys must return the data within 1e-13',
    'complex step: imaginary parts are compared only while complex-step mode is on; the mode is '
    'switched on again after it was switched off only if nothing but set_val (documented to assign '
    'into the complex storage) ran in between (what other operations do to imaginary parts while '
    'the mode is off is not stated); dot/get_norm are not compared under complex step (docstring and '
    'code disagree on "real parts")',
    'fresh state per history = root data arrays reset to a generic pattern on a Problem built once '
    'per worker process (a Vector has no other state than its data, complex-step flag and scope '
    'names); the static cases replay sample histories on one brand-new model per history and '
    'require the same result',
]
MIN_NONTRIVIAL = {'quick': 150000, 'thorough': 2000000}
CAP_S = {'thorough': 1500}      # guard for a shared machine; a capped run reports exhaustive=false
CHUNK = 2

_VECS = [('input', 'nonlinear'), ('output', 'nonlinear'), ('residual', 'nonlinear'),
         ('input', 'linear'), ('output', 'linear'), ('residual', 'linear')]
_PARTNER = {0: 3, 3: 0, 1: 2, 2: 1, 4: 5, 5: 4}
_SUBS = ['g1', 'g1.ca', 'g2', 'g2.cb']

# declared model --------------------------------------------------------------------------------
_OUT = [  # comp, name, shape, units, ref, ref0, res_ref
    ('g1.ca', 's', (1,), 'm', 0.5, 4.0, 8.0),
    ('g1.ca', 'v', (3,), 'm', [2.0, 4.0, 8.0], [0.5, 0.25, -1.0], [2.0, 0.5, 4.0]),
    ('g1.ca', 'tc', (), 'degC', 2.0, -2.0, 0.5),
    ('g2.cd', 'u', (2,), 'm', None, None, None),
    ('g2.cb', 'm', (2, 2), None, [[2.0, 4.0], [0.5, 8.0]], 0.25, 4.0),
    ('g2.cb', 'r', (2,), None, None, None, None),
]
_IN = [   # comp, name, shape, units, source, (factor, constant) of the unit conversion src -> tgt
    ('g1.ca', 'x', (), 'm', None, (1.0, 0.0)),
    ('g1.ca', 'w', (2, 2), None, 'g2.cb.m', (1.0, 0.0)),
    ('g2.cb', 'p', (3,), 'cm', 'g1.ca.v', (100.0, 0.0)),
    ('g2.cb', 't', (), 'degF', 'g1.ca.tc', (1.8, 32.0)),
    ('g2.cb', 'z', (1,), 'km', 'g1.ca.s', (0.001, 0.0)),
    ('g2.cb', 'y', (2,), 'cm', 'g2.cd.u', (100.0, 0.0)),
]

_PALS = [[0.5, -1.5, 3.0, 0.25, 2.0], [1.5, -0.5, 4.0, 0.125, -2.0],
         [-0.75, 2.5, 0.5, -4.0, 1.25], [0.375, -3.0, 1.5, 2.0, -0.25]]
_BASE = np.array([1.0, -2.0, 3.0, -0.5, 1.5, 4.0, -3.0, 0.25, 2.5, -1.25, 5.0, 0.75, -4.5, 6.0,
                  -0.375, 7.0, 1.75, -5.5, 0.625, 3.5, -6.5, 2.25, 8.0, -0.875])
_INIT = np.array([0.5, -1.0, 2.0, 1.5, -0.25, 3.0, -2.5, 0.75, 4.0, -1.75, 1.25, -3.5, 2.25, 5.0,
                  -0.625, 6.5])


def _size(shape):
    return int(np.prod(shape)) if shape != () else 1


# --------------------------------------------------------------------------- real model

_H = {}


def _build(cs):
    import openmdao.api as om

    def mk(comp):
        class Comp(om.ExplicitComponent):
            def setup(self):
                for c, n, shp, units, src, _ in _IN:
                    if c == comp:
                        self.add_input(n, shape=shp, units=units)
                for c, n, shp, units, ref, ref0, rr in _OUT:
                    if c == comp:
                        kw = {}
                        if ref is not None:
                            kw = dict(ref=np.array(ref) if np.ndim(ref) else ref,
                                      ref0=np.array(ref0) if np.ndim(ref0) else ref0,
                                      res_ref=np.array(rr) if np.ndim(rr) else rr)
                        self.add_output(n, shape=shp, units=units, **kw)
        return Comp()

    p = om.Problem(reports=None)
    g1 = p.model.add_subsystem('g1', om.Group())
    g1.add_subsystem('ca', mk('g1.ca'))
    g2 = p.model.add_subsystem('g2', om.Group())
    g2.add_subsystem('cd', mk('g2.cd'))
    g2.add_subsystem('cb', mk('g2.cb'))
    for c, n, shp, units, src, _ in _IN:
        if src:
            p.model.connect(src, c + '.' + n)
    p.setup(force_alloc_complex=bool(cs))
    p.final_setup()
    return p


class Harness(object):
    """The real vectors and what was discovered about them."""

    def __init__(self, cs):
        self.cs = cs
        self.prob = _build(cs)
        m = self.prob.model
        self.model = m
        self.root = [m._vectors[k][n] for k, n in _VECS]
        self.systems = {'g1': m.g1, 'g1.ca': m.g1.ca, 'g2': m.g2, 'g2.cb': m.g2.cb}
        self.sub = {(i, s): self.systems[s]._vectors[k][n] for i, (k, n) in enumerate(_VECS)
                    for s in _SUBS}
        self.static_violations = []
        self._discover()

    def _discover(self):
        """layout[i] : list of (absname, start, end, shape) in flat order, found by writing each
        variable by name and reading the flat array."""
        self.layout = []
        self.shapes = {}
        for c, n, shp, *_ in _IN:
            self.shapes[c + '.' + n] = shp
        for c, n, shp, *_ in _OUT:
            self.shapes[c + '.' + n] = shp
        V = self.static_violations
        for i, vec in enumerate(self.root):
            names = [c + '.' + n for c, n, *_ in (_IN if _VECS[i][0] == 'input' else _OUT)]
            n = len(vec)
            arr = vec.asarray()
            arr[:] = 0.0
            found = []
            extra = None
            for k, name in enumerate(names):
                shp = self.shapes[name]
                sz = _size(shp)
                val = (100.0 * (k + 1) + np.arange(sz)).reshape(shp) if shp != () else \
                    100.0 * (k + 1)
                vec[name] = val
            flat = vec.asarray().copy()
            covered = np.zeros(n, dtype=bool)
            for k, name in enumerate(names):
                shp = self.shapes[name]
                sz = _size(shp)
                where = np.nonzero((flat >= 100.0 * (k + 1)) & (flat < 100.0 * (k + 1) + sz))[0]
                want = 100.0 * (k + 1) + np.arange(sz)
                if where.size != sz or not np.array_equal(where, np.arange(where[0], where[0] + sz)) \
                        or not np.array_equal(flat[where], want):
                    V.append(('layout_not_contiguous_c_order', _vname(i),
                              'variable %s written by name lands at flat positions %s with values %s'
                              % (name, where.tolist(), flat[where].tolist())))
                    continue
                covered[where] = True
                found.append((name, int(where[0]), int(where[0]) + sz, shp))
            found.sort(key=lambda t: t[1])
            # what is not covered must be the auto-ivc outputs (not declared by the harness)
            rest = np.nonzero(~covered)[0]
            if rest.size:
                known = set(t[0] for t in found)
                for name, start, stop in vec.ranges():
                    if name not in known:
                        found.append((name, start, stop, '?'))    # auto-ivc: shape not declared here
                        covered[start:stop] = True
                found.sort(key=lambda t: t[1])
                if not covered.all() or _VECS[i][0] == 'input':
                    V.append(('layout_not_a_partition', _vname(i),
                              'flat positions %s belong to no variable' % rest.tolist()))
            for name, s, e, shp in found:
                if tuple(vec.get_range(name)) != (s, e):
                    V.append(('get_range', _vname(i), '%s: get_range %s, data lands at %s' % (
                        name, vec.get_range(name), (s, e))))
            self.layout.append(found)
            if len(vec) != sum(e - s for _, s, e, _ in found):
                V.append(('len', _vname(i), 'len %d' % len(vec)))
            if vec.nvars() != len(found):
                V.append(('nvars', _vname(i), 'nvars %d, %d variables' % (vec.nvars(), len(found))))
        self.sizes = [len(v) for v in self.root]
        # sub-vector slices, by definition: the variables whose path starts with the system path
        self.subslice = {}
        for (i, s), sv in self.sub.items():
            idx = [k for k, (name, a, b, shp) in enumerate(self.layout[i])
                   if name.startswith(s + '.')]
            if idx:
                a = self.layout[i][idx[0]][1]
                b = self.layout[i][idx[-1]][2]
                if idx != list(range(idx[0], idx[-1] + 1)):
                    V.append(('subsystem_not_contiguous', _vname(i), s))
            else:
                a = b = 0
            self.subslice[(i, s)] = (a, b)

    def reset(self):
        for i, vec in enumerate(self.root):
            vec._data[:] = _INIT[:self.sizes[i]] * (1.0 + 0.5 * i)
            vec._under_complex_step = False
            vec.read_only = False
        if self.model.under_complex_step:
            self.model._set_complex_step_mode(False)
        for sv in self.sub.values():
            sv._under_complex_step = False


def _vname(i):
    return '%s_%s' % _VECS[i]


def _harness(cs):
    h = _H.get(cs)
    if h is None:
        h = _H[cs] = Harness(cs)
    return h


# --------------------------------------------------------------------------- reference scaling

def _ref_scaling(layout):
    """For each of the six vectors: (scaler, adder or None) flat arrays in the given layout, from
    the declared quantities.  Linear input additionally gets the reverse-mode multiplier."""
    outs = {c + '.' + n: (shp, ref, ref0, rr) for c, n, shp, u, ref, ref0, rr in _OUT}
    ins = {c + '.' + n: (shp, src, conv) for c, n, shp, u, src, conv in _IN}

    def a0a1(name, sz):
        if name not in outs or outs[name][1] is None:
            return np.zeros(sz), np.ones(sz)
        shp, ref, ref0, rr = outs[name]
        ref = np.broadcast_to(np.asarray(ref, dtype=float), shp).ravel() if shp != () else \
            np.array([float(ref)])
        ref0 = np.broadcast_to(np.asarray(ref0, dtype=float), shp).ravel() if shp != () else \
            np.array([float(ref0)])
        return ref0.copy(), ref - ref0

    def resref(name, sz):
        if name not in outs or outs[name][3] is None:
            return np.ones(sz)
        shp, ref, ref0, rr = outs[name]
        return (np.broadcast_to(np.asarray(rr, dtype=float), shp).ravel() if shp != () else
                np.array([float(rr)])).copy()

    res = []
    rev_mult = None
    for i, (kind, vname) in enumerate(_VECS):
        n = sum(e - s for _, s, e, _ in layout[i])
        scaler = np.ones(n)
        adder = np.zeros(n)
        rmul = np.ones(n)
        for name, s, e, shp in layout[i]:
            sz = e - s
            if kind == 'output':
                a0, a1 = a0a1(name, sz)
                scaler[s:e] = a1
                adder[s:e] = a0
            elif kind == 'residual':
                scaler[s:e] = resref(name, sz)
            else:
                shp_, src, (f, b) = ins[name]
                a0, a1 = a0a1(src, sz) if src else (np.zeros(sz), np.ones(sz))
                scaler[s:e] = f * a1
                adder[s:e] = f * a0 + b
                rmul[s:e] = f / a1
        res.append((scaler, adder if vname == 'nonlinear' else None))
        if (kind, vname) == ('input', 'linear'):
            rev_mult = rmul
    return res, rev_mult


# --------------------------------------------------------------------------- mirror

class Mirror(object):
    def __init__(self, H):
        self.H = H
        self.data = [(_INIT[:n] * (1.0 + 0.5 * i)).astype(complex if (H.cs and _VECS[i][1] ==
                                                                    'nonlinear') else float)
                     for i, n in enumerate(H.sizes)]
        self.cs_on = False
        self.cs_was_on = False
        # True once an operation other than set_val (documented to assign into the complex
        # storage, resetting the imaginary part) ran while the mode was off after having been on:
        # what such operations do to the hidden imaginary parts is not stated, so the mode is
        # then never switched on again
        self.off_dirty = False
        self.ctx = []             # open system-level contexts
        self.scope = None         # (scope_in, scope_out) while inside a matvec context

    def iscs(self, i):
        return self.cs_on and np.iscomplexobj(self.data[i])

    def vis(self, i):
        d = self.data[i]
        if np.iscomplexobj(d) and not self.cs_on:
            return d.real
        return d

    def key(self):
        parts = []
        for i, d in enumerate(self.data):
            full = self.cs_on or not np.iscomplexobj(d) or not self.off_dirty
            parts.append((d if full else d.real).tobytes())
        return (tuple(parts), self.cs_on, self.cs_was_on, self.off_dirty,
                tuple(c[0] for c in self.ctx),
                None if self.scope is None else (tuple(sorted(self.scope[0])),
                                                 tuple(sorted(self.scope[1]))))


# --------------------------------------------------------------------------- operations

def _val(spec, pal, size, shape=None):
    kind = spec[0]
    P = _PALS[pal]
    if kind == 'c':
        return P[spec[1]]
    if kind == 'z':
        return complex(P[spec[1]], P[(spec[1] + 2) % 5])
    if kind == 'pat':
        a = _BASE[spec[1]:spec[1] + size] * P[spec[1]]
    elif kind == 'zpat':
        a = _BASE[spec[1]:spec[1] + size] * complex(P[spec[1]], P[(spec[1] + 1) % 5])
    else:
        raise ValueError(spec)
    if shape is not None:
        a = a.reshape(shape)
    return a


def _idx(spec, n):
    if spec is None:
        return slice(None)
    k = spec[0]
    if k == 's':
        return slice(spec[1], spec[2], spec[3])
    if k == 'i':
        return np.array([j if j >= 0 else n + j for j in spec[1]], dtype=int)
    if k == 'n':
        return spec[1]
    raise ValueError(spec)


def _tup(spec):
    """index spec for named (non-flat) access: list -> tuple with slices"""
    if isinstance(spec, list) and spec and spec[0] == 'T':
        return tuple(slice(*x[1:]) if isinstance(x, list) and x and x[0] == 's' else x
                     for x in spec[1:])
    if isinstance(spec, list) and spec and spec[0] == 's':
        return slice(*spec[1:])
    if isinstance(spec, list) and spec and spec[0] == 'i':
        return list(spec[1])
    return spec


def _entry(H, i, name):
    for t in H.layout[i]:
        if t[0] == name:
            return t
    raise KeyError(name)


class Skip(Exception):
    """operation not enabled in this state"""


def apply_op(H, M, op, pal):
    """Apply op to the real vectors and to the mirror.  Returns (changed, extra_violations)."""
    k = op[0]
    vio = []
    if not M.cs_on and any(isinstance(x, list) and x and x[0] in ('z', 'zpat') for x in op):
        raise Skip()      # complex values are only meaningful under complex step
    if M.cs_was_on and not M.cs_on and k not in ('set_val', 'cs'):
        M.off_dirty = True
    before = [d.copy() for d in M.data]

    def vecs(ref):
        """-> (real vector, mirror visible array, root index, (a, b) slice in the root)"""
        if isinstance(ref, int):
            return H.root[ref], M.vis(ref), ref, (0, H.sizes[ref])
        i, s = ref
        a, b = H.subslice[(i, s)]
        return H.sub[(i, s)], M.vis(i)[a:b], i, (a, b)

    if k in ('set_val', 'iadd', 'isub', 'imul'):
        vec, arr, i, (a, b) = vecs(_vref(op[1]))
        n = b - a
        idx = _idx(op[3], n)
        sel = np.arange(n)[idx]
        val = _val(op[2], pal, np.size(sel))
        if k == 'set_val':
            vec.set_val(val, idx) if op[3] is not None else vec.set_val(val)
            # (documented in set_val: assigns into the complex storage so that the imaginary part
            # is reset)
            M.data[i][a:b][idx] = val
        elif k == 'iadd':
            vec.iadd(val, idx) if op[3] is not None else vec.iadd(val)
            arr[idx] += val
        elif k == 'isub':
            vec.isub(val, idx) if op[3] is not None else vec.isub(val)
            arr[idx] -= val
        else:
            vec.imul(val, idx) if op[3] is not None else vec.imul(val)
            arr[idx] *= val
    elif k in ('+=', '-=', '*='):
        vec, arr, i, (a, b) = vecs(_vref(op[1]))
        if op[2][0] == 'vec':
            other, oarr, j, _ = vecs(_vref(op[2][1]))
            rhs_m = oarr.copy()
            rhs = other
        else:
            rhs = rhs_m = _val(op[2], pal, b - a)
        if k == '+=':
            vec += rhs
            arr += rhs_m
        elif k == '-=':
            vec -= rhs
            arr -= rhs_m
        else:
            vec *= rhs
            arr *= rhs_m
    elif k == 'add_scal_vec':
        vec, arr, i, _ = vecs(_vref(op[1]))
        other, oarr, j, _ = vecs(_vref(op[3]))
        c = _val(op[2], pal, 1)
        vec.add_scal_vec(c, other)
        arr += c * oarr
    elif k == 'set_vec':
        vec, arr, i, (a, b) = vecs(_vref(op[1]))
        other, oarr, j, _ = vecs(_vref(op[2]))
        vec.set_vec(other)
        M.data[i][a:b] = oarr
    elif k in ('setitem', 'set_var'):
        # op: [k, vecref, name (relative to the vector's system), valspec, idxspec, flat]
        ref = _vref(op[1])
        vec, arr, i, (a, b) = vecs(ref)
        prefix = '' if isinstance(ref, int) else ref[1] + '.'
        name, s, e, shp = _entry(H, i, prefix + op[2])
        full = M.vis(i)
        view = full[s:e] if shp == () else full[s:e].reshape(shp)
        flat = bool(op[5])
        if k == 'setitem':
            val = _val(op[3], pal, e - s, None if op[3][0] in 'cz' else (shp if shp != () else None))
            if shp == () and op[3][0] not in 'cz':
                val = val[0]
            vec[op[2]] = val
            view[...] = val
        else:
            tidx = _tup(op[4])
            if flat:
                sel = full[s:e][tidx]
                val = _val(op[3], pal, np.size(sel))
                vec.set_var(op[2], val, idxs=tidx, flat=True)
                full[s:e][tidx] = val
            else:
                sel = view[tidx]
                val = _val(op[3], pal, np.size(sel),
                           None if op[3][0] in 'cz' else np.shape(sel))
                vec.set_var(op[2], val, idxs=tidx)
                view[tidx] = val
    elif k == 'set_vals':
        vec, arr, i, (a, b) = vecs(_vref(op[1]))
        vals = []
        for name, s, e, shp in H.layout[i]:
            if a <= s and e <= b:
                v = _val(['pat', op[2]], pal, e - s, shp if shp not in ((), '?') else None)
                vals.append(v[0] if shp == () else v)
                M.vis(i)[s:e] = np.ravel(v)
        vec.set_vals(vals)
    elif k == 'alias_write':
        # write through one access path (in place), everything else is read afterwards
        ref = _vref(op[1])
        vec, arr, i, (a, b) = vecs(ref)
        prefix = '' if isinstance(ref, int) else ref[1] + '.'
        path = op[2]
        if path == 'asarray':
            tgt = vec.asarray()
            val = _val(op[3], pal, b - a)
            tgt[...] = val
            arr[...] = val
        elif path == 'get_slice':
            tgt = vec.get_slice(slice(1, 3))
            val = _val(op[3], pal, np.size(tgt))
            tgt[...] = val
            arr[1:3] = val
        elif path == 'add_to_slice':
            val = _val(['pat', op[3][1]], pal, 2, (1, 2))
            vec.add_to_slice(slice(1, 3), val)
            arr[1:3] += val.ravel()
        else:
            name, s, e, shp = _entry(H, i, prefix + op[4])
            full = M.vis(i)
            if path == 'getitem':
                if shp == ():
                    raise Skip()
                tgt = vec[op[4]]
                want_shape = shp
            elif path == 'flat':
                tgt = vec._abs_get_val(name, flat=True)
                want_shape = (e - s,)
            elif path == 'get_val':
                tgt = vec.get_val(name, flat=False)
                if shp == ():
                    raise Skip()
                want_shape = shp
            elif path == 'local_views':
                tgt, is_scalar = vec._get_local_views()[prefix and name[len(prefix):] or name]
                want_shape = shp if shp != () else (1,)
                if bool(is_scalar) != (shp == ()):
                    vio.append(('local_views_is_scalar', 'flag %r for shape %s' % (is_scalar, shp)))
            else:
                raise ValueError(path)
            if shp == () and np.size(tgt) == 1:
                want_shape = np.shape(tgt)      # (the shape of a scalar's view is not stated)
            if tuple(np.shape(tgt)) != tuple(want_shape):
                vio.append(('alias_shape', '%s of %s has shape %s, declared %s' % (
                    path, name, np.shape(tgt), want_shape)))
                return False, vio
            val = _val(op[3], pal, e - s, want_shape) if op[3][0] not in 'cz' else \
                _val(op[3], pal, 1)
            tgt[...] = val
            full[s:e] = np.ravel(val) if np.ndim(val) else val
    elif k in ('to_norm', 'to_phys'):
        ref = _vref(op[1])
        vec, arr, i, (a, b) = vecs(ref)
        mode = op[2]
        scaler, adder = H.ref_scaling[i]
        scaler = scaler[a:b]
        adder = None if adder is None else adder[a:b]
        if mode == 'rev':
            mult = H.rev_mult[a:b]
            if k == 'to_norm':
                vec.scale_to_norm(mode='rev')
                arr *= mult
            else:
                vec.scale_to_phys(mode='rev')
                arr /= mult
        else:
            if k == 'to_norm':
                vec.scale_to_norm()
                if adder is not None:
                    arr -= adder
                arr /= scaler
            else:
                vec.scale_to_phys()
                arr *= scaler
                if adder is not None:
                    arr += adder
    elif k == 'roundtrip':
        # scale_to_norm then scale_to_phys must return the data (and the other way round)
        ref = _vref(op[1])
        vec, arr, i, (a, b) = vecs(ref)
        mode = op[2]
        x0 = vec.asarray(copy=True)
        kw = {'mode': 'rev'} if mode == 'rev' else {}
        if op[3] == 'norm_first':
            vec.scale_to_norm(**kw)
            vec.scale_to_phys(**kw)
        else:
            vec.scale_to_phys(**kw)
            vec.scale_to_norm(**kw)
        x1 = vec.asarray(copy=True)
        tol = 1e-13 * max(1.0, float(np.max(np.abs(x0))) if x0.size else 1.0) * \
            max(1.0, float(np.max(np.abs(H.ref_scaling[i][0][a:b]))) if b > a else 1.0)
        if not np.all(np.abs(x1 - x0) <= tol):
            vio.append(('scaling_roundtrip', 'norm/phys round trip (%s, %s) changed the data by %s'
                        % (mode, op[3], np.max(np.abs(x1 - x0)))))
        vec.set_val(x0)     # put the exact data back (round-off of the round trip is not state)
    elif k == 'ctx_enter':
        which = op[1]
        if any(c[0] == which for c in M.ctx) or (M.ctx and which.startswith('matvec')) or \
                (which.startswith('matvec') and M.scope is not None):
            raise Skip()
        m = H.model
        if which == 'scaled_all':
            cm = m._scaled_context_all()
            cm.__enter__()
            for i in (1, 2, 4, 5):
                _mscale(H, M, i, 'to_norm')
        elif which == 'unscaled':
            cm = m._unscaled_context(outputs=[H.root[1], H.root[4]], residuals=[H.root[2],
                                                                                 H.root[5]])
            cm.__enter__()
            for i in (1, 4, 2, 5):
                _mscale(H, M, i, 'to_phys')
        elif which in ('matvec_fwd', 'matvec_rev'):
            sc_out = frozenset(['g1.ca.v', 'g2.cb.m', 'g2.cd.u'])
            sc_in = frozenset(['g2.cb.p', 'g1.ca.x', 'g2.cb.y'])
            mode = which[-3:]
            cm = m._matvec_context(sc_out, sc_in, mode)
            cm.__enter__()
            if mode == 'fwd':
                M.data[5][:] = 0.0
            else:
                M.data[3][:] = 0.0
                M.data[4][:] = 0.0
            M.scope = (sc_in, sc_out)
        else:
            raise ValueError(which)
        M.ctx.append((which, cm))
    elif k == 'ctx_exit':
        if not M.ctx:
            raise Skip()
        which, cm = M.ctx.pop()
        if op[1] == 'exc':
            exc = _Boom('raised inside the with block')
            try:
                r = cm.__exit__(_Boom, exc, None)
            except _Boom:
                r = False
            if r:
                vio.append(('exception_swallowed', 'context %s swallowed an exception' % which))
        else:
            cm.__exit__(None, None, None)
        if which == 'scaled_all':
            for i in (1, 2, 4, 5):
                _mscale(H, M, i, 'to_phys')
        elif which == 'unscaled':
            for i in (1, 4, 2, 5):
                _mscale(H, M, i, 'to_norm')
        else:
            M.scope = None
    elif k == 'cs':
        on = bool(op[1])
        if not H.cs or on == M.cs_on or (on and M.cs_was_on and M.off_dirty):
            raise Skip()
        H.model._set_complex_step_mode(on)
        M.cs_on = on
        M.cs_was_on = M.cs_was_on or on
    else:
        raise ValueError('harness: unknown op %r' % (op,))
    changed = any(not np.array_equal(x, y) for x, y in zip(before, M.data))
    return changed, vio


class _Boom(Exception):
    pass


def _mscale(H, M, i, what):
    scaler, adder = H.ref_scaling[i]
    arr = M.vis(i)
    if what == 'to_norm':
        if adder is not None:
            arr -= adder
        arr /= scaler
    else:
        arr *= scaler
        if adder is not None:
            arr += adder


def _vref(r):
    """vector reference: int (root index) or [root index, subsystem]"""
    return r if isinstance(r, int) else (r[0], r[1])


# --------------------------------------------------------------------------- observation

def _close(a, b, scale=None):
    a = np.asarray(a)
    b = np.asarray(b)
    if a.shape != b.shape:
        return False
    if a.size == 0:
        return True
    s = max(1.0, float(np.max(np.abs(b)))) if scale is None else scale
    return bool(np.all(np.abs(a - b) <= 1e-12 * s))


def observe(H, M, focus):
    """Compare every access path of the implementation with the mirror.  Returns list of
    (what, vector name, msg)."""
    vio = []
    for i, vec in enumerate(H.root):
        want = M.vis(i)
        got = vec.asarray()
        if got.dtype != want.dtype:
            vio.append(('dtype', _vname(i), 'asarray dtype %s, expected %s' % (got.dtype,
                                                                               want.dtype)))
        if not _close(got, want):
            bad = np.nonzero(~(np.abs(got - want) <= 1e-12 * max(1.0, float(np.max(np.abs(want))))))
            vio.append(('flat_data', _vname(i), 'asarray differs from the mirror at flat positions '
                        '%s: got %s expected %s' % (bad[0].tolist()[:6], got[bad][:6].tolist(),
                                                    want[bad][:6].tolist())))
    if vio:
        return vio
    i = focus
    vec = H.root[i]
    full = M.vis(i)
    cs = M.iscs(i)
    scale = max(1.0, float(np.max(np.abs(full)))) if full.size else 1.0
    inscope = None
    if M.scope is not None and _VECS[i][1] == 'linear' and _VECS[i][0] != 'residual':
        inscope = M.scope[0] if _VECS[i][0] == 'input' else M.scope[1]
    names_iter = list(vec)
    want_names = [t[0] for t in H.layout[i] if inscope is None or t[0] in inscope]
    if names_iter != want_names:
        vio.append(('iter_names', _vname(i), 'iteration gives %s expected %s' % (names_iter,
                                                                                  want_names)))
    for name, s, e, shp in H.layout[i]:
        want = full[s:e]
        try:
            g1 = vec[name]
            g2 = vec.get_val(name)
            g3 = vec.get_val(name, flat=False)
            cont = name in vec
        except Exception as exc:
            vio.append(('named_get_raises', _vname(i), '%s: %s: %s' % (name, type(exc).__name__,
                                                                       exc)))
            continue
        if shp == '?':
            ok = _close(np.ravel(g1), want, scale) and _close(np.ravel(g3), want, scale)
        elif shp == ():
            ok = np.ndim(g1) == 0 and _close(np.array([g1]), want, scale) and np.ndim(g3) == 0
        else:
            ok = tuple(np.shape(g1)) == tuple(shp) and _close(np.ravel(g1), want, scale) and \
                tuple(np.shape(g3)) == tuple(shp) and _close(np.ravel(g3), want, scale)
        if not ok:
            vio.append(('named_get', _vname(i), 'vec[%r] = %s, mirror slice %s shape %s' % (
                name, np.asarray(g1).tolist(), want.tolist(), shp)))
        if np.shape(g2) != (e - s,) or not _close(g2, want, scale):
            vio.append(('named_get_flat', _vname(i), 'get_val(%r) = %s, mirror %s' % (
                name, np.asarray(g2).tolist(), want.tolist())))
        if bool(np.iscomplexobj(g1)) != bool(cs):
            vio.append(('named_get_dtype', _vname(i), 'vec[%r] complex=%s under_cs=%s' % (
                name, np.iscomplexobj(g1), cs)))
        if cont != (inscope is None or name in inscope):
            vio.append(('contains', _vname(i), '%r in vec -> %s' % (name, cont)))
    # items()/values(): out-of-scope variables read as zeros
    try:
        its = list(vec.items())
        for (nm, val), (name, s, e, shp) in zip(its, H.layout[i]):
            want = full[s:e] if (inscope is None or name in inscope) else np.zeros(e - s)
            if nm != name or not _close(np.ravel(val), want, scale):
                vio.append(('items', _vname(i), 'items() gives (%s, %s), expected (%s, %s)' % (
                    nm, np.ravel(val).tolist(), name, want.tolist())))
    except Exception as exc:
        vio.append(('items_raises', _vname(i), '%s: %s' % (type(exc).__name__, exc)))
    # mask
    if _VECS[i][1] == 'linear':
        mask = vec.get_mask()
        if inscope is None:
            if mask is not None:
                vio.append(('mask', _vname(i), 'get_mask() = %r outside a matvec scope' % (mask,)))
        else:
            want_m = np.concatenate([np.arange(s, e) for name, s, e, shp in H.layout[i]
                                     if name not in inscope] or [np.zeros(0, dtype=int)])
            got_m = np.arange(len(vec))[mask] if mask is not None else np.zeros(0, dtype=int)
            if not np.array_equal(np.sort(got_m), want_m):
                vio.append(('mask', _vname(i), 'get_mask() selects %s, out-of-scope positions are '
                            '%s' % (got_m.tolist(), want_m.tolist())))
    # sub-vectors of the same kind
    for s in _SUBS:
        sv = H.sub[(i, s)]
        a, b = H.subslice[(i, s)]
        got = sv.asarray()
        if not _close(got, full[a:b], scale):
            vio.append(('subvector_data', _vname(i), 'sub-vector of %s = %s, root slice [%d:%d] of '
                        'the mirror = %s' % (s, got.tolist(), a, b, full[a:b].tolist())))
        for name, vs, ve, shp in H.layout[i]:
            if name.startswith(s + '.'):
                rel = name[len(s) + 1:]
                try:
                    g = sv[rel]
                except Exception as exc:
                    vio.append(('subvector_named_get_raises', _vname(i), '%s[%r]: %s' % (
                        s, rel, exc)))
                    continue
                if not _close(np.ravel(g), full[vs:ve], scale):
                    vio.append(('subvector_named_get', _vname(i), '%s vec[%r] = %s, mirror %s' % (
                        s, rel, np.ravel(g).tolist(), full[vs:ve].tolist())))
    # norms and dot products (real mode only)
    if not cs:
        j = _PARTNER[i]
        nrm = vec.get_norm()
        wn = float(np.sqrt(np.sum(full * full)))
        if abs(nrm - wn) > 1e-12 * max(1.0, wn):
            vio.append(('norm', _vname(i), 'get_norm %r, expected %r' % (nrm, wn)))
        if not M.iscs(j):
            d = vec.dot(H.root[j])
            wd = float(np.sum(full * M.vis(j)))
            if abs(d - wd) > 1e-12 * max(1.0, wn * float(np.sqrt(np.sum(M.vis(j) ** 2)))):
                vio.append(('dot', _vname(i), 'dot %r, expected %r' % (d, wd)))
    return vio


# --------------------------------------------------------------------------- alphabets

def _alphabet(focus, alpha, H):
    T = focus
    P = _PARTNER[T]
    n = H.sizes[T]
    kind = _VECS[T][0]
    names = [t for t in H.layout[T] if not t[0].startswith('_auto_ivc')]
    n22 = [t[0] for t in names if t[3] == (2, 2)][0]
    n3 = [t[0] for t in names if len(t[3]) == 1 and t[3][0] >= 2][0]
    nsc = [t[0] for t in names if t[3] == ()][0]
    last = ['i', [0, 2, -1]]
    ops = []
    if alpha == 'arith':
        ops = [['set_val', T, ['c', 0], None], ['set_val', T, ['pat', 1], None],
               ['set_val', T, ['c', 1], ['s', 1, 4, None]], ['set_val', T, ['pat', 2], last],
               ['set_val', T, ['c', 2], ['n', 3]],
               ['iadd', T, ['c', 1], None], ['iadd', T, ['pat', 0], None],
               ['iadd', T, ['pat', 1], ['s', 1, 4, None]], ['iadd', T, ['pat', 2], last],
               ['isub', T, ['c', 2], None], ['isub', T, ['pat', 1], ['s', None, None, 2]],
               ['isub', T, ['pat', 0], last],
               ['imul', T, ['c', 3], None], ['imul', T, ['pat', 2], ['s', 1, 4, None]],
               ['imul', T, ['pat', 1], last], ['imul', T, ['c', 1], ['n', -1]],
               ['+=', T, ['c', 0]], ['-=', T, ['c', 3]], ['*=', T, ['c', 1]],
               ['+=', T, ['vec', P]], ['-=', T, ['vec', P]], ['*=', T, ['vec', P]],
               ['+=', T, ['pat', 3]], ['*=', T, ['pat', 4]],
               ['add_scal_vec', T, ['c', 1], P], ['set_vec', T, P],
               ['set_val', P, ['pat', 3], None], ['imul', P, ['c', 4], None]]
    elif alpha == 'named':
        ops = [['setitem', T, nsc, ['c', 0], None, 0], ['setitem', T, n3, ['c', 1], None, 0],
               ['setitem', T, n22, ['c', 2], None, 0], ['setitem', T, n22, ['pat', 1], None, 0],
               ['setitem', T, n3, ['pat', 2], None, 0], ['setitem', T, nsc, ['pat', 3], None, 0],
               ['set_var', T, n22, ['c', 3], ['T', 0, 1], 0],
               ['set_var', T, n22, ['pat', 2], ['T', ['s', None, None, None], 1], 0],
               ['set_var', T, n22, ['pat', 0], ['i', [0, 3]], 1],
               ['set_var', T, n22, ['pat', 4], None, 1],
               ['set_var', T, n3, ['c', 4], -1, 0], ['set_var', T, n3, ['pat', 1], ['i', [1, 0]], 0],
               ['set_var', T, n3, ['pat', 3], ['s', 0, 2, None], 1],
               ['set_vals', T, 2],
               ['set_val', T, ['c', 0], None], ['imul', T, ['c', 3], None]]
        for op in ops:
            if op[0] == 'set_var' and op[4] is None:
                op[4] = ['s', None, None, None]
    elif alpha == 'subvec':
        rel22 = n22.split('.', 1)[1]            # relative to g1 / g2
        sys22 = n22.split('.')[0]
        comp22 = '.'.join(n22.split('.')[:2])
        rel3 = n3.split('.', 1)[1]
        sys3 = n3.split('.')[0]
        ops = [['set_val', [T, 'g1'], ['c', 0], None], ['imul', [T, 'g2.cb'], ['c', 1], None],
               ['+=', [T, 'g2'], ['c', 2]], ['set_val', [T, 'g2'], ['pat', 1], ['s', 1, 3, None]],
               ['iadd', [T, 'g1'], ['pat', 2], ['i', [0, -1]]],
               ['setitem', [T, sys22], rel22, ['pat', 3], None, 0],
               ['setitem', [T, comp22], n22.split('.')[-1], ['c', 4], None, 0],
               ['set_var', [T, sys3], rel3, ['pat', 0], ['i', [1, 0]], 0],
               ['set_var', [T, sys22], rel22, ['pat', 4], ['i', [3, 0]], 1],
               ['alias_write', T, 'getitem', ['pat', 2], n22],
               ['alias_write', T, 'flat', ['pat', 3], n3],
               ['alias_write', T, 'get_val', ['c', 1], n3],
               ['alias_write', T, 'local_views', ['pat', 0], n22],
               ['alias_write', T, 'local_views', ['c', 3], nsc],
               ['alias_write', [T, 'g2'], 'asarray', ['pat', 1], None],
               ['alias_write', [T, sys22], 'local_views', ['pat', 4], rel22],
               ['alias_write', T, 'get_slice', ['pat', 2], None],
               ['alias_write', T, 'add_to_slice', ['pat', 3], None],
               ['-=', [T, 'g1.ca'], ['vec', [P, 'g1.ca']]],
               ['set_val', T, ['pat', 1], None], ['imul', T, ['c', 3], None]]
    elif alpha == 'scaling':
        # (scaling of *input* sub-vectors is only exercised on g2: DefaultVector._set_scaling is
        # not run for the input vectors of systems without internal scaled/unit-converting
        # connections, their linear input vector then scales with the reverse-mode factor in fwd
        # mode; the framework never scales those vectors and the statement does not cover them)
        sub2 = 'g2' if kind == 'input' else 'g1.ca'
        ops = [['to_norm', T, 'fwd'], ['to_phys', T, 'fwd'],
               ['to_norm', [T, 'g2'], 'fwd'], ['to_phys', [T, sub2], 'fwd'],
               ['roundtrip', T, 'fwd', 'norm_first'], ['roundtrip', [T, 'g2.cb'], 'fwd',
                                                       'phys_first'],
               ['ctx_enter', 'scaled_all'], ['ctx_enter', 'unscaled'], ['ctx_exit', 'normal'],
               ['ctx_exit', 'exc'],
               ['set_val', T, ['pat', 0], None], ['iadd', T, ['c', 1], None],
               ['setitem', T, n3, ['c', 2], None, 0], ['*=', T, ['vec', P]]]
        if _VECS[T] == ('input', 'linear'):
            ops += [['to_norm', T, 'rev'], ['to_phys', T, 'rev'], ['to_norm', [T, 'g2'], 'rev'],
                    ['roundtrip', T, 'rev', 'norm_first']]
    elif alpha == 'cs':
        ops = [['cs', 1], ['cs', 0],
               ['set_val', T, ['z', 0], None], ['set_val', T, ['c', 1], ['s', 1, 4, None]],
               ['iadd', T, ['zpat', 1], ['s', 1, 4, None]], ['imul', T, ['z', 2], None],
               ['setitem', T, n22, ['z', 3], None, 0], ['setitem', T, n3, ['zpat', 0], None, 0],
               ['set_var', T, n22, ['zpat', 2], ['i', [0, 3]], 1],
               ['+=', T, ['vec', P]], ['isub', T, ['zpat', 4], last],
               ['alias_write', T, 'getitem', ['zpat', 2], n22],
               ['set_val', [T, 'g2'], ['z', 4], None],
               ['to_norm', T, 'fwd'], ['to_phys', T, 'fwd']]
    elif alpha == 'csoffon':
        # complex values written under complex step, the mode switched off, plain set_val calls,
        # the mode switched on again: entries set while it was off must have no imaginary part
        ops = [['cs', 1], ['cs', 0],
               ['set_val', T, ['z', 0], None], ['set_val', T, ['c', 1], ['s', 1, 4, None]],
               ['set_val', T, ['pat', 2], None], ['set_val', [T, 'g2'], ['c', 3], None]]
    elif alpha == 'matvec':
        ops = [['ctx_enter', 'matvec_fwd'], ['ctx_enter', 'matvec_rev'], ['ctx_exit', 'normal'],
               ['ctx_exit', 'exc'],
               ['set_val', T, ['pat', 1], None], ['iadd', T, ['c', 0], ['s', 1, 4, None]],
               ['setitem', T, n3, ['pat', 2], None, 0], ['set_val', 5, ['pat', 3], None],
               ['imul', P, ['c', 2], None]]
    elif alpha == 'cross':
        for i in range(6):
            ops.append(['set_val', i, ['c', i % 5], None])
            ops.append(['+=', i, ['vec', _PARTNER[i]]])
            ops.append(['to_norm', i, 'fwd'])
            ops.append(['to_phys', i, 'fwd'])
        ops.append(['ctx_enter', 'scaled_all'])
        ops.append(['ctx_exit', 'normal'])
    else:
        raise ValueError(alpha)
    return ops


_DEPTH = {'quick': {'arith': 3, 'named': 3, 'subvec': 3, 'scaling': 4, 'cs': 3, 'matvec': 4,
                    'cross': 3, 'csoffon': 5},
          'thorough': {'arith': 4, 'named': 4, 'subvec': 4, 'scaling': 5, 'cs': 4, 'matvec': 5,
                       'cross': 4, 'csoffon': 6}}


def _n_ops(focus, alpha):
    # number of operations in an alphabet without building a model: the alphabets have a fixed
    # size per (focus, alpha)
    base = {'arith': 28, 'named': 16, 'subvec': 21, 'scaling': 14, 'cs': 15, 'matvec': 9,
            'cross': 26, 'csoffon': 6}[alpha]
    if alpha == 'scaling' and _VECS[focus] == ('input', 'linear'):
        base += 4
    return base


def cases(tier, seed):
    out = [{'kind': 'static', 'cs': 0}, {'kind': 'static', 'cs': 1}]
    pal = seed % 4
    for alpha in ('arith', 'named', 'subvec', 'scaling', 'cs', 'matvec', 'cross', 'csoffon'):
        if alpha in ('cs', 'csoffon'):
            foci = [0, 1, 2]
        elif alpha == 'matvec':
            foci = [3, 4]
        elif alpha == 'cross':
            foci = [1]
        else:
            foci = list(range(6))
        for T in foci:
            for first in range(_n_ops(T, alpha)):
                out.append({'kind': 'bfs', 'focus': T, 'alpha': alpha, 'first': first,
                            'depth': _DEPTH[tier][alpha], 'cs': int(alpha in ('cs', 'csoffon')),
                            'pal': pal})
    return out


# --------------------------------------------------------------------------- search

def _opclass(op):
    k = op[0]
    if k in ('set_val', 'iadd', 'isub', 'imul'):
        form = 'whole' if op[3] is None else {'s': 'slice', 'i': 'index_array', 'n': 'int'}[op[3][0]]
        sub = '' if isinstance(op[1], int) else '_subvector'
        return '%s_%s%s' % (k, form, sub)
    if k in ('+=', '-=', '*='):
        nm = {'+=': 'iadd_op', '-=': 'isub_op', '*=': 'imul_op'}[k]
        return nm + ('_vector' if op[2][0] == 'vec' else ('_scalar' if op[2][0] in 'cz' else
                                                          '_array')) + \
            ('' if isinstance(op[1], int) else '_subvector')
    if k in ('setitem', 'set_var'):
        return k + ('_flat' if op[5] else '') + ('' if isinstance(op[1], int) else '_subvector')
    if k == 'alias_write':
        return 'alias_write_' + op[2] + ('' if isinstance(op[1], int) else '_subvector')
    if k in ('to_norm', 'to_phys'):
        return 'scale_%s_%s%s' % (k, op[2], '' if isinstance(op[1], int) else '_subvector')
    if k == 'roundtrip':
        return 'roundtrip_%s' % op[2]
    if k in ('ctx_enter', 'ctx_exit'):
        return k + '_' + op[1]
    if k == 'cs':
        return 'cs_on' if op[1] else 'cs_off'
    return k


def replay(H, history, focus, pal, check_all=False):
    """Reset, replay in lock-step.  Returns (mirror, violations, index, changed_last, skipped)."""
    H.reset()
    M = Mirror(H)
    vio = []
    changed = False
    try:
        for k, op in enumerate(history):
            last = k == len(history) - 1
            try:
                changed, extra = apply_op(H, M, op, pal)
            except Skip:
                return M, [], k, False, True
            except Exception as exc:
                return M, [('op_raises', _opclass(op), _vname(focus), '%s: %s' % (
                    type(exc).__name__, str(exc)[:300]))], k, False, False
            vio = [(w, _opclass(op), _vname(focus), m) for w, m in extra]
            if last or check_all or vio:
                vio += [(w, _opclass(op), vn, m) for w, vn, m in observe(H, M, focus)]
            if vio:
                return M, vio, k, changed, False
        return M, vio, len(history) - 1, changed, False
    finally:
        # leave no context open on the shared model (the mirror keeps its record of them: it is
        # part of the state key)
        for which, cm in reversed(M.ctx):
            try:
                cm.__exit__(None, None, None)
            except Exception:
                pass


def _mkv(case, history, what, opcls, vn, msg):
    c = {'kind': 'history', 'focus': case['focus'], 'cs': case['cs'], 'pal': case['pal'],
         'history': history}
    return {'sig': 'C33:%s:%s/%s' % (what, opcls, vn),
            'msg': 'focus=%s history=%r: %s' % (_vname(case['focus']), history, msg), 'case': c}


def _static(case):
    H = Harness(case['cs'])       # always a fresh model: the discovery is the test
    _H[case['cs']] = H
    vios = []
    for what, vn, msg in H.static_violations:
        vios.append({'sig': 'C33:%s:static/%s' % (what, vn), 'msg': msg, 'case': dict(case)})
    H.ref_scaling, H.rev_mult = _ref_scaling(H.layout)
    # _get_local_views with an external array: views of that array, and a size check
    evals = 0
    for i, vec in enumerate(H.root):
        n = len(vec)
        ext = np.arange(n, dtype=float) + 1000.0
        try:
            lv = vec._get_local_views(ext)
            for name, s, e, shp in H.layout[i]:
                view, is_scalar = lv[name]
                evals += 1
                if not np.array_equal(np.ravel(view), ext[s:e]) or not np.shares_memory(view, ext):
                    vios.append({'sig': 'C33:local_views_external:static/%s' % _vname(i),
                                 'msg': '%s -> %s' % (name, np.ravel(view).tolist()),
                                 'case': dict(case)})
        except Exception as exc:
            vios.append({'sig': 'C33:local_views_external_raises:static/%s' % _vname(i),
                         'msg': str(exc), 'case': dict(case)})
        try:
            vec._get_local_views(np.zeros(n + 1))
            vios.append({'sig': 'C33:local_views_wrong_size_accepted:static/%s' % _vname(i),
                         'msg': 'array of size n+1 accepted', 'case': dict(case)})
        except RuntimeError:
            pass
    # histories on brand-new models (one build per history): the same lock-step comparison as in
    # the search, to back the reset-instead-of-rebuild shortcut used there
    fresh = 0
    for alpha in ('arith', 'named', 'subvec', 'scaling', 'cs', 'matvec', 'cross'):
        if alpha in ('cs', 'csoffon') and not case['cs']:
            continue
        foci = {'cs': [1], 'matvec': [3, 4], 'cross': [1]}.get(alpha, [0, 4])
        for focus in foci:
            ops = _alphabet(focus, alpha, H)
            for start in (0, len(ops) // 2):
                hist = (ops + ops)[start:start + 4]
                Hn = Harness(case['cs'])
                Hn.ref_scaling, Hn.rev_mult = _ref_scaling(Hn.layout)
                hcase = {'focus': focus, 'cs': case['cs'], 'pal': 0}
                done = []
                for op in hist:          # drop operations that are not enabled
                    M, vio, at, changed, skipped = replay(Hn, done + [op], focus, 0, check_all=True)
                    if skipped:
                        continue
                    done.append(op)
                    if vio:
                        vios.extend(_mkv(hcase, done, w, oc, vn, m) for w, oc, vn, m in vio)
                        break
                fresh += 1
                M2, vio2, _, _, _ = replay(H, done, focus, 0, check_all=True)
                if not vio and (vio2 or M2.key() != M.key()):
                    vios.append({'sig': 'C33:reset_differs_from_fresh_build:static/%s' % _vname(
                        focus), 'msg': 'history %r' % (done,), 'case': dict(case)})
    evals += fresh
    return {'evals': evals + 6, 'nontrivial': evals, 'outcome': 'static', 'violations': vios,
            'counters': {'states': 1, 'transitions': 0, 'traces': 0 if vios else 1},
            'sample': {'layout': [[(t[0], t[1], t[2]) for t in lay] for lay in H.layout[:2]]}}


def check_case(case):
    import openmdao.api  # noqa: F401  (import outside of any warnings context)
    kind = case['kind']
    if kind == 'static':
        return _static(case)
    H = _harness(case['cs'])
    if not hasattr(H, 'ref_scaling'):
        H.ref_scaling, H.rev_mult = _ref_scaling(H.layout)
    if H.static_violations:
        return {'evals': 1, 'outcome': 'static_violation', 'violations': []}
    pal = case['pal']
    focus = case['focus']
    if kind == 'history':
        M, vio, at, changed, skipped = replay(H, case['history'], focus, pal, check_all=True)
        vs = [_mkv(case, case['history'][:at + 1], w, oc, vn, m) for w, oc, vn, m in vio]
        return {'evals': 1, 'nontrivial': int(changed), 'outcome': 'violation' if vs else 'ok',
                'violations': vs}

    ops = _alphabet(focus, case['alpha'], H)
    assert len(ops) == _n_ops(focus, case['alpha']), (len(ops), case)
    depth = case['depth']
    outcomes = collections.Counter()
    persig = collections.Counter()
    vios = []
    evals = transitions = traces = nontriv = 0
    seen = set()
    frontier = [[ops[case['first']]]]
    first_round = True
    for d in range(1, depth + 1):
        nxt = []
        for hist in frontier:
            cands = [hist] if first_round else [hist + [op] for op in ops]
            for h2 in cands:
                M, vio, at, changed, skipped = replay(H, h2, focus, pal)
                if skipped:
                    continue
                evals += 1
                transitions += 1
                if vio:
                    for w, oc, vn, m in vio:
                        v = _mkv(case, h2[:at + 1], w, oc, vn, m)
                        persig[v['sig']] += 1
                        outcomes['VIOLATION:' + w] += 1
                        if persig[v['sig']] <= 2:
                            vios.append(v)
                    continue
                oc = _opclass(h2[-1])
                outcomes[oc + (':changed' if changed else ':noop')] += 1
                nontriv += int(changed)
                key = M.key()
                if key in seen:
                    traces += 1
                    continue
                seen.add(key)
                if d < depth:
                    nxt.append(h2)
                else:
                    traces += 1
        first_round = False
        frontier = nxt
        if not frontier:
            break
    return {'evals': evals, 'nontrivial': nontriv, 'outcome': dict(outcomes), 'violations': vios,
            'counters': {'states': len(seen), 'transitions': transitions, 'traces': traces},
            'sample': {'focus': _vname(focus), 'alphabet': case['alpha'], 'first_op': ops[
                case['first']], 'depth': depth, 'states': len(seen)}}
