"""C34 - function-based and jax components compute their functions and exact partials
(DESIGN.md section 4, C34).

Function bodies are enumerated from a small grammar (shared tree library omv/lib_exprtree.py),
rendered to Python source (numpy spelling for the func-comp wrappers, jax.numpy for the jax
component classes), compiled and wrapped in the four real component kinds; oracle = the tree
evaluated by the harness' own NumPy interpreter and its own forward-mode AD.
"""
import collections
import contextlib
import io
import itertools
import linecache
import os
import re

import numpy as np

from omv import lib_exprtree as L

ID = 'C34'
LEVEL = 'exploration'
TECHNIQUE = ('bounded exhaustive enumeration of generated function bodies x shapes x wrapper kind x '
             'derivative route x coloring/declaration options against an independent tree '
             'interpreter with forward-mode AD')
RULE = ('every body with <= 2 operator nodes over {+ - * sin exp square sum dot matmul index '
        'concatenate, literal} of inputs x, a (every 1-operator body and every 6th 2-operator body in '
        'quick, all in thorough with a reduced option set) x shape combinations {(), (3,), (2,2), (2,3), mixed} accepted by '
        'NumPy x 1-2 outputs x wrapper {ExplicitFuncComp, ImplicitFuncComp, JaxExplicitComponent, '
        'JaxImplicitComponent} (implicit: residuals body1 - y**2 and body2 * z over states y, z) x '
        'option sets within Hamming distance 1 (+ selected pairs) of {route jax, jit, no coloring, '
        'shapes declared}: route cs / fd-central (polynomial bodies of degree <= 2 only), '
        'use_jit=False, coloring, rows/cols-diagonal declaration, matrix_free, shape declaration '
        'form (val / inferred by jax / dynamic shapes), rev mode, argument order and return style; '
        'each admissible spec is built once and evaluated at two palette points; non-trivial = the '
        'reference Jacobian has >= 2 entries that are not all equal')
LEVEL_TEXT = ('Small-scope exhaustiveness over the discrete structure that the reshaping / '
              'reordering code of the wrappers depends on: number and shapes of inputs and outputs, '
              'which of fwd/rev the sizes select, colored versus uncolored expansion, argument '
              'order of states, declaration format.  Outputs/residuals and the linearised Jacobian '
              '(compute_totals for explicit, check_partials J_fwd/J_rev for implicit components) '
              'are compared with an independent interpreter + AD.')
LEVEL_NOTE = ('Trusted: NumPy, jax\'s own AD rules (the wrappers\' use of them is what is checked), '
              'the tree interpreter/AD (self-tested against central differences in every run), '
              'check_partials as read-out of an implicit component\'s Jacobian.')
ASSUMPTIONS = [
    'a body is only evaluated at palette points where every node argument is >= 0.25 away from '
    'kinks/singularities (decided by the reference)',
    'fd routes are only demanded for polynomial bodies of degree <= 2 with form=central and a '
    'tolerance of 1e-6; cs and jax routes with 1e-9',
    'diagonal (rows/cols) declarations are only requested for partials that are structurally '
    'diagonal (elementwise body over one common shape)',
    'shape inference (no output shape given) is only requested where the documentation offers it: '
    'func_api with method=jax, jax components with default_to_dyn_shapes',
    'the sparsity used by a coloring is measured numerically by OpenMDAO at the first point; a '
    'second point is only demanded where the exact Jacobian has the same nonzero pattern',
    'jax persistent compilation cache is enabled in the workers (speed only)',
]
MIN_NONTRIVIAL = {'quick': 2000, 'thorough': 8000}
CAP_S = {'thorough': 1500}
CHUNK = 1

X, A, Y, Z = ('v', 'x'), ('v', 'a'), ('v', 'y'), ('v', 'z')
N2 = ('n', 2.0)
U = ['sin', 'exp', 'square']
IDXS = [1, slice(None, None, -1), (slice(None), 0)]
BINS = [('b', '+'), ('b', '*'), ('b', '-')]
BILS = [('f2', 'dot'), ('f2', 'matmul')]


def _bin(op, p, q):
    return (op[0], op[1], p, q)


def _unary_like(t):
    for u in U:
        yield ('u', u, t)
    yield ('r', 'sum', t)
    for s in IDXS:
        yield ('i', s, t)


def one_op_bodies():
    out = list(_unary_like(X))
    out += [_bin(op, X, A) for op in BINS + BILS]
    out += [_bin(('b', '-'), A, X), ('cat', X, A), _bin(('b', '*'), X, N2),
            _bin(('f2', 'matmul'), A, X)]
    return out


def two_op_bodies():
    out = []
    for t in one_op_bodies():
        out.extend(_unary_like(t))
    xonly = list(_unary_like(X)) + [_bin(('b', '*'), X, N2)]
    for op in BINS + BILS:
        for t in xonly:
            out.append(_bin(op, t, A))
            out.append(_bin(op, X, t))
    for t in xonly:
        out.append(('cat', t, A))
        out.append(('cat', A, t))
    for op in BINS:
        for u1 in U:
            for u2 in U:
                out.append(_bin(op, ('u', u1, X), ('u', u2, A)))
    return out


SECOND = [('r', 'sum', ('b', '*', X, X)), ('b', '*', A, N2), ('u', 'sin', X), ('b', '*', X, A)]

SHAPE_COMBOS = [((3,), (3,)), ((2, 2), (2, 2)), ((), ()), ((3,), ()), ((), (3,)), ((2, 3), (3,)),
                ((2, 2), (2,)), ((2, 3), (3, 2)), ((3,), (2, 2))]
SHAPE_COMBOS_Q = SHAPE_COMBOS[:6]

WRAPPERS = ('efc', 'ifc', 'jec', 'jic')

# option deviations from the base {route: jax, jit, no coloring, shapes declared with shape=}
OPTS = {
    'efc': [{}, {'route': 'cs'}, {'route': 'fd'}, {'jit': False}, {'color': True},
            {'color': True, 'route': 'cs'}, {'diag': True}, {'diag': True, 'route': 'cs'},
            {'decl': 'val'}, {'decl': 'infer'}, {'mode': 'rev'}, {'ret': 'expr'},
            {'color': True, 'jit': False}, {'color': True, 'mode': 'rev'}],
    'ifc': [{}, {'route': 'cs'}, {'route': 'fd'}, {'jit': False}, {'color': True},
            {'color': True, 'route': 'cs'}, {'order': 'state_first'}, {'order': 'mixed'},
            {'order': 'state_first', 'color': True}, {'order': 'mixed', 'color': True},
            {'order': 'state_first', 'route': 'cs'}, {'decl': 'val'}],
    'jec': [{}, {'route': 'cs'}, {'route': 'fd'}, {'jit': False}, {'color': True},
            {'color': True, 'route': 'cs'}, {'diag': True}, {'mf': True}, {'mf': True, 'mode': 'rev'},
            {'decl': 'val'}, {'decl': 'dyn'}, {'mode': 'rev'}, {'color': True, 'jit': False},
            {'partials': 'declared'}, {'color': True, 'partials': 'declared'},
            {'sparse': True}, {'sparse': True, 'mode': 'rev'}],
    'jic': [{}, {'route': 'cs'}, {'route': 'fd'}, {'jit': False}, {'color': True},
            {'color': True, 'route': 'cs'}, {'mf': True}, {'decl': 'val'}, {'decl': 'dyn'},
            {'partials': 'declared'}, {'color': True, 'jit': False}, {'sparse': True}],
}
OPTS_Q = {w: [o for o in OPTS[w]] for w in WRAPPERS}


def _names_of(bodies):
    names = []
    for t in bodies:
        for n in L.variables(t):
            if n not in names:
                names.append(n)
    names.sort(key=lambda n: 0 if n == 'x' else 1)
    return names


def _specs_for(bodies, combos, wrappers, opts):
    names = _names_of(bodies)
    seen = set()
    for combo in combos:
        shp = dict(zip(names, combo))
        key = tuple(sorted(shp.items()))
        if key in seen:
            continue
        seen.add(key)
        # reference-side admissibility is decided in the worker; this is only the enumeration
        for w in wrappers:
            for opt in opts[w]:
                yield {'wrapper': w, 'bodies': list(bodies), 'shapes': shp, 'opt': opt}


def cases(tier, seed):
    rot = seed % 4
    _selftest_oracle()
    out = []
    one = one_op_bodies()
    two = two_op_bodies()
    if tier == 'quick':
        groups = [([t], SHAPE_COMBOS_Q, OPTS_Q) for t in one]
        base_only = {w: [{}, {'color': True}] for w in WRAPPERS}
        groups += [([t], SHAPE_COMBOS_Q[:4], base_only) for t in two[::6]]
        groups += [([one[i * 3 % len(one)], s], SHAPE_COMBOS_Q[:3],
                    {w: [{}, {'color': True}, {'route': 'cs'}] for w in WRAPPERS})
                   for i, s in enumerate(SECOND)]
    else:
        groups = [([t], SHAPE_COMBOS, OPTS) for t in one]
        some = {w: [{}, {'color': True}, {'route': 'cs'}, {'color': True, 'route': 'cs'}]
                for w in WRAPPERS}
        some['ifc'] = some['ifc'] + [{'order': 'state_first', 'color': True}]
        some['jec'] = some['jec'] + [{'mf': True}]
        groups += [([t], SHAPE_COMBOS_Q[:4], some) for t in two]
        groups += [([t, s], SHAPE_COMBOS_Q[:3], some) for t in one for s in SECOND]
    for bodies, combos, opts in groups:
        specs = list(_specs_for(bodies, combos, WRAPPERS, opts))
        for s in specs:
            s['rot'] = rot
        # one batch per (body, wrapper): compiled pieces are shared inside a worker
        for w in WRAPPERS:
            ws = [s for s in specs if s['wrapper'] == w]
            for i in range(0, len(ws), 40):
                out.append({'kind': 'batch', 'specs': ws[i:i + 40]})
    return out


# ------------------------------------------------------------------ reference side

def _degree(t):
    """polynomial degree of the body in its variables (inf if not polynomial)"""
    k = t[0]
    if k == 'v':
        return 1
    if k in ('k', 'n'):
        return 0
    if k == 'u':
        d = _degree(t[2])
        if t[1] == 'neg':
            return d
        if t[1] == 'square':
            return 2 * d
        return 0 if d == 0 else float('inf')
    if k == 'b':
        p, q = _degree(t[2]), _degree(t[3])
        if t[1] in ('+', '-'):
            return max(p, q)
        if t[1] == '*':
            return p + q
        return float('inf')
    if k == 'f2':
        if t[1] in L.F2_BILINEAR:
            return _degree(t[2]) + _degree(t[3])
        return float('inf')
    if k in ('r', 'i'):
        if k == 'r' and t[1] in ('prod', 'max', 'min'):
            return float('inf')
        return _degree(t[2])
    if k == 'cat':
        return max(_degree(t[1]), _degree(t[2]))
    return float('inf')


def residual_trees(spec, outshapes=None):
    """the trees whose value the component must return: the bodies (explicit wrappers) or the
    residuals body1 - y**2, body2 * z (implicit wrappers)"""
    b = spec['bodies']
    if spec['wrapper'] in ('efc', 'jec'):
        return list(b)
    out = [('b', '-', b[0], ('u', 'square', Y))]
    if len(b) > 1:
        out.append(('b', '*', b[1], Z))
    return out


def reference(spec):
    rot = spec.get('rot', 0)
    shapes = {n: tuple(s) for n, s in spec['shapes'].items()}
    innames = list(shapes)
    implicit = spec['wrapper'] in ('ifc', 'jic')
    statenames = ['y', 'z'][:len(spec['bodies'])] if implicit else []
    pts = []
    for label, env in L.palette_points(innames, shapes, rot):
        try:
            bvals = [L.evaluate(t, env) for t in spec['bodies']]
        except L.Unsafe:
            continue
        except L.Inadmissible:
            return {'status': 'inadmissible'}
        full = dict(env)
        fam = label.split('/')[0]
        for i, (s, bv) in enumerate(zip(statenames, bvals)):
            full[s] = L.family_values(fam, 2 + i, np.shape(bv), rot + 4 + i) \
                if np.size(bv) <= 9 else None
            if full[s] is None:
                return {'status': 'inadmissible'}
        trees = residual_trees(spec)
        names = innames + statenames
        try:
            res = [L.jacobian(t, full, names) for t in trees]
        except L.Unsafe:
            continue
        except L.Inadmissible:
            return {'status': 'inadmissible'}
        if any(np.size(r[0]) > 9 for r in res):
            return {'status': 'inadmissible'}      # kept within the palette size
        if pts:
            same = all(np.array_equal(r[1][n] != 0, q[n] != 0)
                       for r, q in zip(res, pts[0][3]) for n in names)
            if not same:
                continue
        pts.append((label, full, [r[0] for r in res], [r[1] for r in res]))
        if len(pts) >= 2:
            break
    if not pts:
        return {'status': 'no_safe_point'}
    return {'status': 'ok', 'points': pts, 'innames': innames, 'statenames': statenames,
            'names': innames + statenames, 'trees': residual_trees(spec),
            'outshapes': [tuple(np.shape(v)) for v in pts[0][2]]}


def _size(s):
    return int(np.prod(s, dtype=int))


def option_admissible(spec, ref):
    opt = spec['opt']
    w = spec['wrapper']
    route = opt.get('route', 'jax')
    shapes = {n: tuple(s) for n, s in spec['shapes'].items()}
    if route == 'fd' and max(_degree(t) for t in ref['trees']) > 2:
        return 'fd_not_exact'
    if opt.get('diag'):
        env = ref['points'][0][1]
        arrs = set(s for s in list(shapes.values()) + ref['outshapes'] if _size(s) > 1)
        if len(arrs) != 1 or not all(L.is_elementwise(t, env) for t in spec['bodies']):
            return 'diag_not_diagonal'
        if not all(_size(s) > 1 for s in ref['outshapes']):
            return 'diag_not_diagonal'
    if opt.get('decl') == 'infer' and route != 'jax':
        return 'infer_needs_jax'
    if opt.get('decl') == 'val' and any(s == () for s in list(shapes.values()) + ref['outshapes']):
        return 'val_of_0d_declares_shape_1'     # val=np.ones(()) is a size-1 vector in OpenMDAO
    if opt.get('mf') and route != 'jax':
        return 'matrix_free_needs_jax'
    if opt.get('partials') == 'declared' and route != 'jax':
        return 'left_out'
    if opt.get('order') and w != 'ifc':
        return 'order_only_ifc'
    for t in spec['bodies']:
        if not L.variables(t):
            return 'no_inputs'
    return None


# ------------------------------------------------------------------ implementation side

_OM = None
_COUNTER = [0]


def init_worker():
    global _OM
    import warnings
    os.environ['OPENMDAO_CHECK_ALL_PARTIALS'] = '1'
    os.environ.setdefault('TF_CPP_MIN_LOG_LEVEL', '3')     # XLA's C++ "slow compile" chatter
    import openmdao.api as om
    import jax
    warnings.simplefilter('ignore')
    cache = os.environ.get('OMV_JAX_CACHE_DIR') or os.path.join(
        os.environ.get('OMV_SCRATCH', os.getcwd()), 'jaxcache')
    try:
        jax.config.update('jax_compilation_cache_dir', cache)
        jax.config.update('jax_persistent_cache_min_compile_time_secs', 0)
        jax.config.update('jax_persistent_cache_min_entry_size_bytes', -1)
    except Exception:
        pass
    _OM = om


def _compile(src, glob):
    _COUNTER[0] += 1
    fn = '<omv-c34-%d-%d>' % (os.getpid(), _COUNTER[0])
    code = compile(src, fn, 'exec')
    # make inspect.getsource work (func_api / jax components parse the source of the function)
    linecache.cache[fn] = (len(src), None, src.splitlines(True), fn)
    ns = dict(glob)
    ns['__name__'] = 'omv_generated'
    exec(code, ns)
    return ns


def _shape_src(s):
    return repr(tuple(int(i) for i in s))


def source(spec, ref):
    """Python source of the wrapped function / component class"""
    w = spec['wrapper']
    opt = spec['opt']
    innames, states = ref['innames'], ref['statenames']
    outs = ['y', 'z'][:len(spec['bodies'])]
    trees = ref['trees']
    prefix = 'np.' if w in ('efc', 'ifc') else 'jnp.'
    exprs = [L.render(t, prefix) for t in trees]
    if w in ('efc', 'ifc'):
        if w == 'efc':
            args = list(innames)
            retn = outs
        else:
            order = opt.get('order', 'in_first')
            if order == 'state_first':
                args = states + innames
            elif order == 'mixed':
                args = innames[:1] + states[:1] + innames[1:] + states[1:]
            else:
                args = innames + states
            retn = ['R_' + s for s in states]
        lines = ['def f(%s):' % ', '.join(args)]
        if opt.get('ret') == 'expr':
            lines.append('    return ' + ', '.join(exprs))
        else:
            for r, e in zip(retn, exprs):
                lines.append('    %s = %s' % (r, e))
            lines.append('    return ' + ', '.join(retn))
        return '\n'.join(lines) + '\n', args
    base = 'JaxExplicitComponent' if w == 'jec' else 'JaxImplicitComponent'
    shapes = {n: tuple(s) for n, s in spec['shapes'].items()}
    oshapes = dict(zip(outs, ref['outshapes']))
    decl = opt.get('decl', 'shape')
    lines = ['class C(om.%s):' % base, '    def setup(self):']
    for n in innames:
        if decl == 'dyn':
            lines.append("        self.add_input('%s')" % n)
        elif decl == 'val':
            lines.append("        self.add_input('%s', val=np.ones(%s))" % (n, _shape_src(shapes[n])))
        else:
            lines.append("        self.add_input('%s', shape=%s)" % (n, _shape_src(shapes[n])))
    for o in outs:
        if decl == 'dyn' and w == 'jec':
            lines.append("        self.add_output('%s')" % o)
        elif decl == 'val':
            lines.append("        self.add_output('%s', val=np.ones(%s))" % (o, _shape_src(oshapes[o])))
        else:
            lines.append("        self.add_output('%s', shape=%s)" % (o, _shape_src(oshapes[o])))
    if opt.get('color'):
        lines.append('        self.declare_coloring(show_summary=False)')
    if opt.get('diag') or opt.get('partials') == 'declared' or opt.get('sparse'):
        lines.append('    def setup_partials(self):')
        for io, o in enumerate(outs):
            for n in innames + states:
                pat = None
                if opt.get('sparse') and n in innames:
                    # rows/cols = the exact nonzero pattern of d body/d input (union over the
                    # reference points); generally neither diagonal nor symmetric
                    pat = np.zeros((_size(oshapes[o]), _size(shapes[n])), dtype=bool)
                    for pt in ref['points']:
                        pat |= np.asarray(pt[3][io][n]).reshape(pat.shape) != 0
                    if not pat.any() or pat.size == 1:
                        pat = None
                if pat is not None:
                    rr, cc = np.nonzero(pat)
                    lines.append("        self.declare_partials('%s', '%s', rows=np.array(%s), "
                                 "cols=np.array(%s))" % (o, n, rr.tolist(), cc.tolist()))
                elif opt.get('diag') and _size(oshapes[o]) > 1 and n in innames and \
                        _size(shapes[n]) > 1:
                    lines.append("        self.declare_partials('%s', '%s', rows=np.arange(%d), "
                                 "cols=np.arange(%d))" % (o, n, _size(oshapes[o]), _size(oshapes[o])))
                else:
                    lines.append("        self.declare_partials('%s', '%s')" % (o, n))
    args = innames + states
    lines.append('    def compute_primal(self, %s):' % ', '.join(args))
    if w == 'jec':
        for r, e in zip(outs, exprs):
            lines.append('        %s = %s' % (r, e))
        lines.append('        return ' + ', '.join(outs))
    else:
        # a named return value of a jax implicit component must carry the name of its state
        # (documented); the states are arguments here, so the residuals are returned as expressions
        lines.append('        return ' + ', '.join(exprs))
    return '\n'.join(lines) + '\n', args


def build(spec, ref):
    om = _OM
    import jax.numpy as jnp
    import openmdao.func_api as omf
    w, opt = spec['wrapper'], spec['opt']
    route = opt.get('route', 'jax')
    innames, states = ref['innames'], ref['statenames']
    shapes = {n: tuple(s) for n, s in spec['shapes'].items()}
    outs = ['y', 'z'][:len(spec['bodies'])]
    oshapes = dict(zip(outs, ref['outshapes']))
    decl = opt.get('decl', 'shape')
    src, args = source(spec, ref)
    p = om.Problem(reports=None)
    kw = {}
    if 'jit' in opt:
        kw['use_jit'] = bool(opt['jit'])
    if w in ('efc', 'ifc'):
        f = _compile(src, {'np': np})['f']
        wf = omf.wrap(f)
        for n in innames:
            if decl == 'val':
                wf.add_input(n, val=np.ones(shapes[n]))
            else:
                wf.add_input(n, shape=shapes[n])
        for o in outs:
            okw = {}
            if w == 'ifc':
                okw['resid'] = 'R_' + o
            if decl == 'val':
                okw['val'] = np.ones(oshapes[o])
            elif not (decl == 'infer' and w == 'efc'):
                okw['shape'] = oshapes[o]
            wf.add_output(o, **okw)
        pkw = {'method': route}
        if route == 'fd':
            pkw['form'] = 'central'
        if opt.get('diag'):
            for o in outs:
                for n in innames:
                    if _size(oshapes[o]) > 1 and _size(shapes[n]) > 1:
                        r = np.arange(_size(oshapes[o]))
                        wf.declare_partials(of=o, wrt=n, rows=r, cols=r.copy(), **pkw)
                    else:
                        wf.declare_partials(of=o, wrt=n, **pkw)
        else:
            wf.declare_partials(of='*', wrt='*', **pkw)
        if opt.get('color'):
            ckw = {'method': route, 'show_summary': False}
            if route == 'fd':
                ckw['form'] = 'central'
            wf.declare_coloring(wrt='*', **ckw)
        comp = om.ExplicitFuncComp(wf, **kw) if w == 'efc' else om.ImplicitFuncComp(wf, **kw)
    else:
        C = _compile(src, {'om': om, 'jnp': jnp, 'np': np})['C']
        if route != 'jax':
            kw['derivs_method'] = route
        if decl == 'dyn':
            kw['default_to_dyn_shapes'] = True
        comp = C(**kw)
        if opt.get('mf'):
            comp.matrix_free = True
        if route == 'fd':
            comp.set_check_partial_options('*', form='central')
    wrt_in = ['c.' + n for n in innames]
    if decl == 'dyn':
        ivc = p.model.add_subsystem('ivc', om.IndepVarComp())
        for n in innames:
            ivc.add_output(n, shape=shapes[n])
        p.model.add_subsystem('c', comp)
        for n in innames:
            p.model.connect('ivc.' + n, 'c.' + n)
        wrt_in = ['ivc.' + n for n in innames]
    else:
        p.model.add_subsystem('c', comp)
    return p, comp, src, wrt_in


def _maxabs(a):
    a = np.asarray(a)
    return float(np.max(np.abs(a))) if a.size else 0.0


def _scls(shape):
    shape = tuple(shape)
    if shape == ():
        return '0'
    if _size(shape) == 1:
        return '1'
    return 'v' if len(shape) == 1 else 'm'


def _root(t):
    k = t[0]
    if k in ('u', 'b'):
        return 'elem'
    if k in ('f2', 'r'):
        return t[1]
    if k == 'i':
        return 'index'
    return k


def _optlabel(opt):
    return '+'.join('%s=%s' % (k, opt[k]) for k in sorted(opt)) or 'base'


def _slug(msg):
    last = [ln for ln in str(msg).strip().splitlines() if ln.strip()][-1:] or ['']
    s = re.sub(r"<omv-c34-[0-9-]+>", '', last[0])
    return re.sub(r'[^A-Za-z]+', '_', s)[:56].strip('_')


def _run(spec):
    spec = dict(spec)
    spec.setdefault('opt', {})
    spec.setdefault('rot', 0)
    ref = reference(spec)
    if ref['status'] != 'ok':
        return ref['status'], 0, 0, []
    why = option_admissible(spec, ref)
    if why:
        return 'left_out:' + why, 0, 0, []
    w, opt = spec['wrapper'], spec['opt']
    route = opt.get('route', 'jax')
    tol = 1.0e-6 if route == 'fd' else 1.0e-9
    if route == 'fd' and w in ('jec', 'jic'):
        tol = 5.0e-5    # derivs_method='fd' offers no form argument: forward differences, O(h)
    implicit = w in ('ifc', 'jic')
    innames, states, names = ref['innames'], ref['statenames'], ref['names']
    outs = ['y', 'z'][:len(spec['bodies'])]
    roots = '&'.join(_root(t) for t in spec['bodies'])
    cls = '%s:%s|%s|in=%s|out=%s' % (w, _optlabel(opt), roots,
                                     ','.join(_scls(spec['shapes'][n]) for n in innames),
                                     ','.join(_scls(s) for s in ref['outshapes']))
    case = {'kind': 'one', 'wrapper': w, 'bodies': spec['bodies'], 'shapes': spec['shapes'],
            'opt': opt, 'rot': spec['rot']}
    vio = []
    src = ['?']

    def V(what, msg, blk=None, **kw):
        c = cls if blk is None else cls.split('|in=')[0] + '|blk=' + blk
        if what.startswith('raises_'):
            # the exception slug pins the root cause: keep only option set and output classes
            c = cls.split('|')[0] + '|out=' + cls.split('|out=')[1]
        d = {'sig': 'C34:%s:%s' % (what, c), 'case': case, 'what': what,
             'msg': '%s %s %s shapes=%s opt=%s: %s' % (
                 what, w, [L.render(t) for t in ref['trees']], spec['shapes'], opt, msg),
             'source': src[0]}
        d.update(kw)
        vio.append(d)

    np.random.seed(12345)
    stage = 'build'
    evals = 0
    colored = False
    buf = io.StringIO()
    try:
        with contextlib.redirect_stdout(buf), contextlib.redirect_stderr(buf):
            p, comp, src[0], wrt_in = build(spec, ref)
            stage = 'setup'
            p.setup(mode=opt.get('mode', 'fwd'))
            for ipt, (label, env, vals, jacs) in enumerate(ref['points']):
                stage = 'set_val'
                for n, wn in zip(innames, wrt_in):
                    p.set_val(wn, env[n])
                for s in states:
                    p.set_val('c.' + s, env[s])
                if implicit:
                    stage = 'final_setup'
                    p.final_setup()
                    stage = 'apply_nonlinear'
                    p.model.run_apply_nonlinear()
                    got_vals = [np.asarray(comp._residuals[s]) for s in states]
                    what = 'residual'
                else:
                    stage = 'run_model'
                    p.run_model()
                    got_vals = [np.asarray(p.get_val('c.' + o)) for o in outs]
                    what = 'output'
                evals += 1
                for o, got, want in zip(outs, got_vals, vals):
                    if got.shape != want.shape:
                        V(what + '_shape', 'point %s: %s has shape %s, function value has shape %s' % (
                            label, o, got.shape, want.shape))
                        continue
                    if not _maxabs(got - want) <= 1e-9 * max(1.0, _maxabs(want)):
                        V(what, 'point %s (#%d): %s = %s, NumPy value %s' % (
                            label, ipt, o, got.ravel().tolist(), want.ravel().tolist()),
                          observed=got, expected=want)
                # ---- partials
                blocks = {}     # (of, wrt name) -> list of (tag, matrix)
                if implicit:
                    stage = 'check_partials'
                    data = p.check_partials(out_stream=None, compact_print=True)
                    cdata = data.get('c', {})
                    for o in outs:
                        for n in names:
                            ent = cdata.get((o, n))
                            if ent is None or 'J_fwd' not in ent:
                                # no analytic sub-jacobian: the component treats the block as zero
                                blocks[o, n] = [('undeclared', None)]
                                continue
                            lst = [('J_fwd', ent['J_fwd'])]
                            if opt.get('mf') and 'J_rev' in ent:
                                lst.append(('J_rev', ent['J_rev']))
                            blocks[o, n] = lst
                else:
                    stage = 'compute_totals'
                    J = p.compute_totals(of=['c.' + o for o in outs], wrt=wrt_in)
                    for o in outs:
                        for n, wn in zip(innames, wrt_in):
                            blocks[o, n] = [('total', J['c.' + o, wn])]
                for (o, jac, osh, tr) in zip(outs, jacs, ref['outshapes'], spec['bodies']):
                    for n in names:
                        want = jac[n]
                        nshape = spec['shapes'][n] if n in spec['shapes'] else np.shape(env[n])
                        blk = '%s:%sx%s%s' % (_root(tr), _scls(osh), _scls(nshape),
                                              '' if n in innames else 's')
                        for tag, got in blocks[o, n]:
                            if got is None:
                                if _maxabs(want) > 0:
                                    V('partials_undeclared', 'point %s: d%s/d%s is not declared but '
                                      'the exact derivative is %s' % (label, o, n,
                                                                      np.round(want, 8).tolist()),
                                      blk=blk)
                                continue
                            got = np.asarray(got)
                            if got.shape != want.shape:
                                V('partials_shape', 'point %s: %s d%s/d%s has shape %s, expected %s'
                                  % (label, tag, o, n, got.shape, want.shape), blk=blk)
                                continue
                            if not _maxabs(got - want) <= tol * max(1.0, _maxabs(want)):
                                V('partials', 'point %s (#%d): %s d%s/d%s = %s, exact %s' % (
                                    label, ipt, tag, o, n, np.round(got, 8).tolist(),
                                    np.round(want, 8).tolist()), blk=blk, observed=got,
                                  expected=want)
            try:
                colored = comp._coloring_info.coloring is not None
            except Exception:
                colored = False
    except Exception as exc:
        if os.environ.get('OMV_DEBUG_RAISE'):
            raise
        V('raises_%s:%s:%s' % (stage, type(exc).__name__, _slug(exc)),
          '%s: %s' % (type(exc).__name__, str(exc)[:400]))
    if vio:
        seen, out = set(), []
        for v in vio:
            if v['sig'] not in seen:
                seen.add(v['sig'])
                out.append(v)
        return 'violation', max(evals, 1), 0, out
    nontriv = 0
    for jac in ref['points'][0][3]:
        allv = np.concatenate([jac[n].ravel() for n in names])
        if allv.size >= 2 and np.ptp(allv) > 0:
            nontriv = 1
    return 'ok:%s:%s:%s' % (w, _optlabel(opt), 'colored' if colored else 'plain'), evals, nontriv, []


def check_one(spec):
    """run; a violating spec is minimised greedily (drop options / the second output while the
    same observable still fails)"""
    oc, ev, nt, vio = _run(spec)
    if not vio:
        return oc, ev, nt, vio
    out, seen = [], set()
    for what in sorted(set(v['what'] for v in vio)):
        cur = dict(spec)
        changed = True
        while changed:
            changed = False
            trials = []
            for k in sorted(cur.get('opt', {})):
                t = dict(cur)
                t['opt'] = {kk: vv for kk, vv in cur['opt'].items() if kk != k}
                trials.append(t)
            if len(cur['bodies']) > 1:
                for i in range(len(cur['bodies'])):
                    t = dict(cur)
                    t['bodies'] = [cur['bodies'][i]]
                    used = [n for n in cur['shapes'] if n in L.variables(t['bodies'][0])]
                    t['shapes'] = {n: cur['shapes'][n] for n in used}
                    if used:
                        trials.append(t)
            for t in trials:
                if any(v['what'] == what for v in _run(t)[3]):
                    cur = t
                    changed = True
                    break
        for v in _run(cur)[3]:
            if v['what'] == what and v['sig'] not in seen:
                seen.add(v['sig'])
                out.append(v)
    return 'violation', ev, 0, out


def _selftest_oracle():
    trees = one_op_bodies() + two_op_bodies()[::5]
    bad = L.selftest(trees, [((3,), (3,)), ((2, 2), (2, 2)), ((2, 3), (3,)), ((), ())])
    if bad:
        raise RuntimeError('reference model self-test failed (f vs f\'): %s' % (bad[:3],))


def check_case(case):
    if _OM is None:
        init_worker()
    if case.get('kind') == 'batch':
        outcomes = collections.Counter()
        evals = nontriv = 0
        vios = []
        per_sig = collections.Counter()
        sample = None
        for spec in case['specs']:
            oc, ev, nt, vio = check_one(spec)
            outcomes[oc] += 1
            evals += ev
            nontriv += nt
            for v in vio:
                per_sig[v['sig']] += 1
                if per_sig[v['sig']] <= 2:
                    vios.append(v)
            if sample is None and ev:
                sample = {'wrapper': spec['wrapper'], 'bodies': [L.render(t) for t in spec['bodies']],
                          'shapes': spec['shapes'], 'opt': spec['opt']}
        return {'evals': evals, 'nontrivial': nontriv, 'outcome': dict(outcomes),
                'violations': vios, 'sample': sample or {'batch': len(case['specs'])}}
    oc, ev, nt, vio = check_one(case)
    return {'evals': ev, 'nontrivial': nt, 'outcome': oc, 'violations': vio}
