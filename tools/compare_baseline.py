#!/venv/bin/python
"""Compare a junit xml of the repository test suite with /root/.vp/BASELINE.json stable_pass.

usage: tools/compare_baseline.py <junit.xml>   (exit 0 when every stable_pass test passed)
"""
import json
import sys
import xml.etree.ElementTree as ET

b = json.load(open('/root/.vp/BASELINE.json'))
sp, af = set(b['stable_pass']), set(b['always_fail'])
res = {}
for tc in ET.parse(sys.argv[1]).iter('testcase'):
    name = tc.get('classname') + '::' + tc.get('name')
    st = 'pass'
    for ch in tc:
        if ch.tag in ('failure', 'error'):
            st = 'fail'
        elif ch.tag == 'skipped' and st != 'fail':
            st = 'skip'
    res[name] = st
bad = sorted(n for n in sp if res.get(n) != 'pass')
print('%d stable_pass tests; not passing now: %d' % (len(sp), len(bad)))
for n in bad:
    print(res.get(n), n)
other = [n for n, s in res.items() if s == 'fail' and n not in af and n not in sp]
print('failures outside stable_pass/always_fail: %d %s' % (len(other), other[:10]))
sys.exit(1 if bad else 0)
