#!/venv/bin/python
"""Evaluate a candidate seeded mutation against the real repository and the checks.

usage: tools/seed_eval.py <PROP_ID> <mutation dir> <k> [--checks C01,C04] [--tests "pytest args"] [--keep]

 1. scratch worktree of /repo HEAD (outside /repo and /verif), apply m<k>.diff
 2. run the demonstration against the mutated tree (must fail) and against /repo (must pass)
 3. optionally run the existing tests given with --tests inside the mutated tree (must pass)
 4. run ./check <ID> --tier quick --no-evidence against the mutated tree for each check
 5. with --keep: copy to /verif/seeded/<ID>-m<k>/ {patch.diff, demo.py, meta.json}
The worktree is always removed.
"""
import argparse
import json
import os
import shutil
import subprocess
import sys
import time

HOME = os.path.dirname(os.path.dirname(os.path.abspath(__file__)))


def run(cmd, env=None, cwd=None, timeout=3600):
    e = dict(os.environ)
    e.update(env or {})
    t0 = time.time()
    p = subprocess.run(cmd, shell=True, cwd=cwd, env=e, stdout=subprocess.PIPE,
                       stderr=subprocess.STDOUT, timeout=timeout)
    return p.returncode, p.stdout.decode(errors='replace'), time.time() - t0


def main():
    ap = argparse.ArgumentParser()
    ap.add_argument('pid')
    ap.add_argument('mdir')
    ap.add_argument('k')
    ap.add_argument('--checks', default=None)
    ap.add_argument('--tests', default=None)
    ap.add_argument('--keep', action='store_true')
    ap.add_argument('--jobs', default='8')
    ap.add_argument('--tier', default='quick')
    a = ap.parse_args()
    pid = a.pid.upper()
    diff = os.path.join(a.mdir, 'm%s.diff' % a.k)
    demo = os.path.join(a.mdir, 'm%s_demo.py' % a.k)
    notes = os.path.join(a.mdir, 'm%s_notes.md' % a.k)
    wt = '/tmp/seedwt_%s_%s_%d' % (pid, a.k, os.getpid())
    out = {'property': pid, 'mutation': 'm%s' % a.k, 'source': a.mdir}
    rc, o, _ = run('git -C /repo worktree add -q --detach %s HEAD' % wt)
    if rc:
        print(o)
        return 2
    try:
        rc, o, _ = run('git apply %s' % os.path.abspath(diff), cwd=wt)
        if rc:
            print('PATCH DOES NOT APPLY:', o[-500:])
            out['applies'] = False
            return 2
        out['applies'] = True
        out['files_changed'] = run('git diff --stat | tail -1', cwd=wt)[1].strip()
        scratch = wt + '_cwd'
        os.makedirs(scratch, exist_ok=True)
        envm = {'PYTHONPATH': wt, 'OM_TREE': wt, 'OPENMDAO_REPORTS': '0'}
        envr = {'PYTHONPATH': '/repo', 'OM_TREE': '/repo', 'OPENMDAO_REPORTS': '0'}
        rcm, om_, _ = run('/venv/bin/python -W ignore %s' % os.path.abspath(demo), env=envm,
                          cwd=scratch, timeout=900)
        rcr, or_, _ = run('/venv/bin/python -W ignore %s' % os.path.abspath(demo), env=envr,
                          cwd=scratch, timeout=900)
        out['demo_on_mutant_rc'] = rcm
        out['demo_on_repo_rc'] = rcr
        out['demo_on_mutant_tail'] = om_[-400:]
        print('demo on mutant rc=%d, on /repo rc=%d' % (rcm, rcr))
        if a.tests:
            rct, ot, dt = run('/venv/bin/python -m pytest -q -p no:cacheprovider --timeout=900 -n %s %s'
                              % (a.jobs, a.tests), env={'PYTHONPATH': wt}, cwd=wt, timeout=7200)
            tail = [l for l in ot.splitlines() if l.strip()][-1:] or ['']
            out['tests_cmd'] = 'pytest -n %s %s' % (a.jobs, a.tests)
            out['tests_rc'] = rct
            out['tests_summary'] = tail[0][-200:]
            print('existing tests rc=%d: %s' % (rct, tail[0][-200:]))
        checks = (a.checks.split(',') if a.checks else [pid])
        out['checks'] = {}
        for c in checks:
            rcc, oc, dt = run('./check %s --tier %s --no-evidence --jobs %s' % (c, a.tier, a.jobs),
                              env={'OMV_REPO': wt}, cwd=HOME, timeout=7200)
            vl = [l for l in oc.splitlines() if l.startswith('VIOLATION')]
            sig = [l.strip()[:260] for l in oc.splitlines() if l.startswith('  [')][:4]
            out['checks'][c] = {'rc': rcc, 'violation_lines': len(vl), 'wall_s': round(dt, 1),
                                'first_signatures': sig}
            print('check %s on mutant: rc=%d, %d VIOLATION lines, %.0fs' % (c, rcc, len(vl), dt))
            for s in sig[:2]:
                print('    ' + s)
        shutil.rmtree(scratch, ignore_errors=True)
        if a.keep:
            d = os.path.join(HOME, 'seeded', '%s-m%s' % (pid, a.k))
            os.makedirs(d, exist_ok=True)
            shutil.copy(diff, os.path.join(d, 'patch.diff'))
            shutil.copy(demo, os.path.join(d, 'demo.py'))
            meta = dict(out)
            meta['breaks_property'] = pid
            meta['needs_to_manifest'] = open(notes).read()[:1500] if os.path.exists(notes) else ''
            meta['repo_head'] = run('git -C /repo rev-parse --short HEAD')[1].strip()
            meta['caught_by'] = [c for c, r in out['checks'].items() if r['rc'] == 1]
            with open(os.path.join(d, 'meta.json'), 'w') as f:
                json.dump(meta, f, indent=1)
            print('kept in', d)
    finally:
        run('git -C /repo worktree remove --force %s' % wt)
        shutil.rmtree(wt + '_cwd', ignore_errors=True)
    return 0


if __name__ == '__main__':
    sys.exit(main())
