#!/venv/bin/python
"""Re-validate every kept seeded change against the current /repo HEAD and the current checks.

usage: tools/seed_recheck.py [--jobs N] [--only C01-m1,C02-m2] [--own-check-only]
For each seeded/<ID>-m<k>/: patch must still apply, demo must fail on the changed tree and pass on
/repo, then the recorded checks are re-run against the changed tree; meta.json is updated.
"""
import argparse
import glob
import json
import os
import shutil
import subprocess
import sys
import tempfile

HOME = os.path.dirname(os.path.dirname(os.path.abspath(__file__)))


def main():
    ap = argparse.ArgumentParser()
    ap.add_argument('--jobs', default='8')
    ap.add_argument('--only', default=None)
    ap.add_argument('--own-check-only', action='store_true')
    a = ap.parse_args()
    dirs = sorted(glob.glob(os.path.join(HOME, 'seeded', '*-m*')))
    if a.only:
        want = set(a.only.split(','))
        dirs = [d for d in dirs if os.path.basename(d) in want]
    for d in dirs:
        name = os.path.basename(d)
        pid, k = name.split('-m')
        meta = json.load(open(os.path.join(d, 'meta.json')))
        checks = sorted(meta.get('checks', {})) or [pid]
        if a.own_check_only:
            checks = [c for c in checks if c in meta.get('caught_by', [])] or [pid]
        tmp = tempfile.mkdtemp(prefix='seedre_')
        try:
            shutil.copy(os.path.join(d, 'patch.diff'), os.path.join(tmp, 'm%s.diff' % k))
            shutil.copy(os.path.join(d, 'demo.py'), os.path.join(tmp, 'm%s_demo.py' % k))
            with open(os.path.join(tmp, 'm%s_notes.md' % k), 'w') as f:
                f.write(meta.get('needs_to_manifest', ''))
            cmd = [sys.executable, os.path.join(HOME, 'tools', 'seed_eval.py'), pid, tmp, k, '--keep',
                   '--checks', ','.join(checks), '--jobs', a.jobs]
            out = subprocess.run(cmd, stdout=subprocess.PIPE, stderr=subprocess.STDOUT).stdout.decode()
            tail = [l for l in out.splitlines() if l.startswith(('demo', 'check', 'PATCH'))]
            print('%s: %s' % (name, ' | '.join(tail)), flush=True)
            m2 = json.load(open(os.path.join(d, 'meta.json')))
            m2['source'] = meta.get('source')
            m2['revalidated'] = True
            json.dump(m2, open(os.path.join(d, 'meta.json'), 'w'), indent=1)
        finally:
            shutil.rmtree(tmp, ignore_errors=True)


if __name__ == '__main__':
    main()
