#!/venv/bin/python
"""Print the markdown table of DESIGN.md section 8.4 from seeded/*/meta.json."""
import glob
import json
import os
import re

HOME = os.path.dirname(os.path.dirname(os.path.abspath(__file__)))
rows = []
FIRST = json.load(open(os.path.join(HOME, 'seeded', 'first_round.json')))['missed_first']
for d in sorted(glob.glob(os.path.join(HOME, 'seeded', '*-m*'))):
    m = json.load(open(os.path.join(d, 'meta.json')))
    patch = open(os.path.join(d, 'patch.diff')).read()
    files = sorted(set(re.findall(r'^\+\+\+ b/(\S+)', patch, re.M)))
    funcs = sorted(set(x.strip() for x in re.findall(r'^@@.*@@ (?:def|class) (\w+)', patch, re.M)))
    caught = m.get('caught_by') or []
    tried = sorted(m.get('checks', {}))
    missed = [c for c in tried if c not in caught]
    note = FIRST.get(os.path.basename(d), 'caught at the first evaluation')
    rows.append((os.path.basename(d), ', '.join(os.path.basename(f) for f in files), ', '.join(funcs)[:40],
                 ', '.join(caught) or '-', ', '.join(missed) or '-', note))
print('| seeded change | file | near | caught by | run but silent | note |')
print('|---|---|---|---|---|---|')
for r in rows:
    print('| %s |' % ' | '.join(r))
